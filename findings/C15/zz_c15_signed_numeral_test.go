package api

// Demonstration for the repaired defect "StringToAmount accepts signs inside the number": the integral and the
// fractional part were handed to strconv.ParseInt, which accepts an optional sign, so "1.+5" parsed as 1.05 MASS,
// "-0.5" as 0.5 MASS (sign dropped) and "+1" as 1 MASS.  C15: parsing accepts only unsigned plain decimal numerals.
// Run through go test -overlay (see /verif/tools/run_finding.sh).

import "testing"

func TestC15SignedNumeralsRejected(t *testing.T) {
	for _, s := range []string{"1.+5", "-0.5", "+1", "+1.5", "0.+0", "-0", "-0.0", "1.-0", "+.5", "-.00000001"} {
		amt, err := StringToAmount(s)
		if err == nil {
			t.Errorf("StringToAmount(%q) accepted a signed numeral: %v maxwell", s, amt.UintValue())
		}
	}
	for s, want := range map[string]uint64{"1.05": 105000000, "0.5": 50000000, "1": 100000000, ".5": 50000000, "7.": 700000000, "0": 0} {
		amt, err := StringToAmount(s)
		if err != nil || amt.UintValue() != want {
			t.Errorf("StringToAmount(%q) = %v, %v; want %d", s, amt, err, want)
		}
	}
}

package txmgr

import (
	"testing"
	"time"

	"github.com/massnetorg/mass-core/database"
	"github.com/massnetorg/mass-core/massutil"
	"github.com/massnetorg/mass-core/txscript"
	"github.com/massnetorg/mass-core/wire"
	"massnet.org/mass-wallet/config"
	mwdb "massnet.org/mass-wallet/masswallet/db"
)

// c12fEnv is a wallet tx store on top of a real (leveldb) chain db that holds
// the first two mocked blocks.
type c12fEnv struct {
	t        *testing.T
	chainDb  database.Db
	walletDb mwdb.DB
	s        *TxStore
	walletId string
	tip      *massutil.Block
}

func c12fSetup(t *testing.T, name string) (*c12fEnv, func()) {
	chainDb, chainDbTearDown, err := GetDb(name + "ChainDb")
	if err != nil {
		t.Fatal(err)
	}
	if err = initBlocks(chainDb, 3); err != nil {
		chainDbTearDown()
		t.Fatal("initBlocks failed:", err)
	}
	s, walletDb, teardown, err := testTxStore(name, chainDb)
	if err != nil {
		chainDbTearDown()
		t.Fatal(err)
	}
	env := &c12fEnv{t: t, chainDb: chainDb, walletDb: walletDb, s: s, tip: blks200[2]}

	err = mwdb.Update(walletDb, func(tx mwdb.DBTransaction) error {
		env.walletId = s.ksmgr.ListKeystoreNames()[0]
		if err := s.ksmgr.UseKeystoreForWallet(env.walletId); err != nil {
			return err
		}
		if err := s.utxoStore.InitNewWallet(tx, s.ksmgr.CurrentKeystore()); err != nil {
			return err
		}
		// the wallet is synced to the two mocked blocks (nothing relevant in them)
		for _, blk := range blks200[1:3] {
			err := s.syncStore.SetSyncedTo(tx, &BlockMeta{
				Height:    blk.Height(),
				Hash:      *blk.Hash(),
				Timestamp: blk.MsgBlock().Header.Timestamp,
			})
			if err != nil {
				return err
			}
		}
		return nil
	})
	if err != nil {
		teardown()
		chainDbTearDown()
		t.Fatal(err)
	}
	return env, func() {
		teardown()
		chainDbTearDown()
	}
}

// issue registers the address the way WalletManager.NewAddress / ImportWallet do.
func (e *c12fEnv) issue(addr string) {
	err := mwdb.Update(e.walletDb, func(tx mwdb.DBTransaction) error {
		return e.s.utxoStore.PutNewAddress(tx, e.walletId, addr, massutil.AddressClassWitnessV0)
	})
	if err != nil {
		e.t.Fatal(err)
	}
}

// lookup returns (listed, used) for the address.
func (e *c12fEnv) lookup(addr string) (listed, used bool) {
	err := mwdb.View(e.walletDb, func(tx mwdb.ReadTransaction) error {
		list, err := e.s.utxoStore.GetAddresses(tx, e.walletId)
		if err != nil {
			return err
		}
		for _, ad := range list {
			if ad.Address == addr && ad.AddressClass == massutil.AddressClassWitnessV0 {
				listed, used = true, ad.Used
			}
		}
		return nil
	})
	if err != nil {
		e.t.Fatal(err)
	}
	return
}

func c12fPayScript(addr string) ([]byte, error) {
	a, err := massutil.DecodeAddress(addr, config.ChainParams)
	if err != nil {
		return nil, err
	}
	return txscript.PayToAddrScript(a)
}

// connect builds the next block on the current tip whose transactions are a
// coinbase (paying `coinbaseTo`, or left as in the template when empty) plus the
// given extra transactions, submits it to the chain db and lets the wallet
// process it exactly as the block-connected handler does.
func (e *c12fEnv) connect(coinbaseTo string, extra ...*wire.MsgTx) *massutil.Block {
	height := e.tip.Height() + 1
	raw, err := blks200[height].Bytes(wire.Packet)
	if err != nil {
		e.t.Fatal(err)
	}
	tmpl, err := massutil.NewBlockFromBytes(raw, wire.Packet)
	if err != nil {
		e.t.Fatal(err)
	}
	msgBlock := tmpl.MsgBlock()
	msgBlock.Header.Previous = *e.tip.Hash()
	msgBlock.Header.Height = height
	coinbase := msgBlock.Transactions[0]
	if coinbaseTo != "" {
		script, err := c12fPayScript(coinbaseTo)
		if err != nil {
			e.t.Fatal(err)
		}
		coinbase.TxOut = []*wire.TxOut{{Value: 100000000, PkScript: script}}
	}
	msgBlock.Transactions = append([]*wire.MsgTx{coinbase}, extra...)
	blk := massutil.NewBlock(msgBlock)

	if err = insertBlock(e.chainDb, blk); err != nil {
		e.t.Fatal("insertBlock:", err)
	}

	err = mwdb.Update(e.walletDb, func(tx mwdb.DBTransaction) error {
		meta := &BlockMeta{
			Height:    blk.Height(),
			Hash:      *blk.Hash(),
			Timestamp: msgBlock.Header.Timestamp,
		}
		meta.Loc, err = e.chainDb.FetchBlockLocByHeight(meta.Height)
		if err != nil {
			return err
		}
		txlocs, err := blk.TxLoc()
		if err != nil {
			return err
		}
		balances, err := e.s.utxoStore.FetchAllMinedBalance(tx)
		if err != nil {
			return err
		}
		for i, mtx := range blk.Transactions() {
			rec, err := NewTxRecordFromMsgTx(mtx.MsgTx(), time.Now())
			if err != nil {
				return err
			}
			// relevance is decided by the keystore, as in NtfnsHandler.filterTx
			rec, err = filterTx(rec, mtx.MsgTx(), e.s, meta)
			if err != nil {
				return err
			}
			if len(rec.RelevantTxIn) == 0 && len(rec.RelevantTxOut) == 0 {
				continue
			}
			rec.TxLoc = &txlocs[i]
			if err = e.s.AddRelevantTx(tx, balances, rec, meta); err != nil {
				return err
			}
		}
		if err = e.s.utxoStore.UpdateMinedBalances(tx, balances); err != nil {
			return err
		}
		return e.s.syncStore.SetSyncedTo(tx, meta)
	})
	if err != nil {
		e.t.Fatal("connect block:", err)
	}
	e.tip = blk
	return blk
}

// disconnect does what NtfnsHandler.disconnectBlock does for the tip block.
func (e *c12fEnv) disconnect(prev *massutil.Block) {
	height := e.tip.Height()
	err := mwdb.Update(e.walletDb, func(tx mwdb.DBTransaction) error {
		if err := e.s.Rollback(tx, height); err != nil {
			return err
		}
		return e.s.syncStore.ResetSyncedTo(tx, height-1)
	})
	if err != nil {
		e.t.Fatal("rollback:", err)
	}
	e.tip = prev
}

func (e *c12fEnv) expect(step, addr string, wantListed, wantUsed bool) {
	listed, used := e.lookup(addr)
	if listed != wantListed || used != wantUsed {
		e.t.Fatalf("%s: address %s listed=%v used=%v, want listed=%v used=%v",
			step, addr, listed, used, wantListed, wantUsed)
	}
}

// C12 finding: an issued address is listed (unused) from the moment it is issued.  Its first payment arrives in
// block 3; a reorganisation disconnects block 3.  The address must still be listed, as unused -- the property says
// "listed from then on ... with a used flag that is true exactly when the best chain contains a payment to it".
// Before the fix TxStore.Rollback deleted the address record (instead of resetting its first-use height), so the
// address vanished from GetAddresses.
func TestC12FindingAddressStaysListedAfterReorgOfFirstPayment(t *testing.T) {
	env, tearDown := c12fSetup(t, "TstC12Finding")
	defer tearDown()

	addrs := env.s.ksmgr.CurrentKeystore().ManagedAddresses()
	if len(addrs) < 2 {
		t.Fatalf("unexpected number of addresses: %d", len(addrs))
	}
	a, b := addrs[0].String(), addrs[1].String()
	env.issue(a)
	env.issue(b)
	env.expect("after issuing", a, true, false)

	env.connect(a)
	env.expect("after first payment (block 3)", a, true, true)
	env.expect("after first payment (block 3)", b, true, false)

	env.disconnect(blks200[2])
	env.expect("after the reorganisation removed block 3 (no payment on the best chain)", a, true, false)
	env.expect("after the reorganisation removed block 3", b, true, false)

	// and a later payment marks it used again
	env.connect(a)
	env.expect("after a new first payment", a, true, true)
}

package masswallet

// Demonstration for the defect "a spend is lost when its parent's credit was written earlier in the same wallet-db
// transaction": filterTx looks the parent credit up through a separate mwdb.View(h.walletMgr.db, ...), which only sees
// committed data, so when two blocks are connected inside one write transaction (a tip announced after the wallet fell
// one block behind, or a reorganisation whose new branch has the payment and its spend in different blocks) the
// spending transaction of the later block is judged irrelevant and the spent output stays in the ledger.
// C01: the reported unspent outputs equal the best chain's, also when tips are announced faster than they are processed.
// Scaffolding adapted from a sub-agent's seeded-change demonstration (round 3).  Run through go test -overlay.

import (
	"encoding/binary"
	"fmt"
	"math"
	"sort"
	"testing"
	"time"

	"github.com/massnetorg/mass-core/database"
	"github.com/massnetorg/mass-core/database/ldb"
	"github.com/massnetorg/mass-core/massutil"
	"github.com/massnetorg/mass-core/txscript"
	"github.com/massnetorg/mass-core/wire"
	"massnet.org/mass-wallet/config"
)

type c01cuUtxo struct {
	txid   string
	vout   uint32
	amount uint64
	height uint64
}

func (u c01cuUtxo) String() string {
	return fmt.Sprintf("%s:%d amount=%d height=%d", u.txid[:8], u.vout, u.amount, u.height)
}

type c01cuEnv struct {
	t       *testing.T
	chainDb database.Db
	w       *WalletManager
}

func c01cuScript(t *testing.T, scriptHash []byte) []byte {
	pk, err := txscript.PayToWitnessScriptHashScript(scriptHash)
	if err != nil {
		t.Fatal(err)
	}
	return pk
}

func c01cuCoinbase(height uint64, outs ...*wire.TxOut) *wire.MsgTx {
	tx := wire.NewMsgTx()
	tx.AddTxIn(wire.NewTxIn(wire.NewOutPoint(&wire.Hash{}, math.MaxUint32), nil))
	for _, o := range outs {
		tx.AddTxOut(o)
	}
	payload := make([]byte, 8)
	binary.BigEndian.PutUint64(payload, height)
	tx.SetPayload(payload)
	return tx
}

func c01cuTx(ins []wire.OutPoint, outs ...*wire.TxOut) *wire.MsgTx {
	tx := wire.NewMsgTx()
	for i := range ins {
		tx.AddTxIn(wire.NewTxIn(&ins[i], nil))
	}
	for _, o := range outs {
		tx.AddTxOut(o)
	}
	return tx
}

// c01cuBlock builds a block on top of prev, borrowing header/proposal
// material from the package's mocked blocks (the chain db does not validate it).
func c01cuBlock(t *testing.T, prev *wire.Hash, height uint64, salt int, txs ...*wire.MsgTx) *massutil.Block {
	raw, err := blks200[height].Bytes(wire.Packet)
	if err != nil {
		t.Fatal(err)
	}
	tmpl, err := massutil.NewBlockFromBytes(raw, wire.Packet)
	if err != nil {
		t.Fatal(err)
	}
	mb := tmpl.MsgBlock()
	mb.Header.Previous = *prev
	mb.Header.Height = height
	mb.Header.Timestamp = mb.Header.Timestamp.Add(time.Duration(salt) * time.Second)
	mb.Transactions = txs
	var root []byte
	for _, tx := range txs {
		h := tx.TxHash()
		root = append(root, h[:]...)
	}
	mb.Header.TransactionRoot = wire.DoubleHashH(root)
	return massutil.NewBlock(mb)
}

func (e *c01cuEnv) chainAttach(blk *massutil.Block) {
	if err := e.chainDb.SubmitBlock(blk); err != nil {
		e.t.Fatalf("chain attach %d: %v", blk.Height(), err)
	}
	cdb := e.chainDb.(*ldb.ChainDb)
	cdb.Batch(1).Set(*blk.Hash())
	cdb.Batch(1).Done()
	if err := e.chainDb.Commit(*blk.Hash()); err != nil {
		e.t.Fatalf("chain attach commit %d: %v", blk.Height(), err)
	}
}

func (e *c01cuEnv) chainDetach(blk *massutil.Block) {
	if err := e.chainDb.DeleteBlock(blk.Hash()); err != nil {
		e.t.Fatalf("chain detach %d: %v", blk.Height(), err)
	}
	cdb := e.chainDb.(*ldb.ChainDb)
	cdb.Batch(1).Set(*blk.Hash())
	cdb.Batch(1).Done()
	if err := e.chainDb.Commit(*blk.Hash()); err != nil {
		e.t.Fatalf("chain detach commit %d: %v", blk.Height(), err)
	}
}

// notify processes one chain-tip notification.
func (e *c01cuEnv) notify(blk *massutil.Block) {
	if err := e.w.ntfnsHandler.processConnectedBlock(blk.MsgBlock()); err != nil {
		e.t.Fatalf("tip notification %d (%s): %v", blk.Height(), blk.Hash().String()[:8], err)
	}
}

func (e *c01cuEnv) expectLedger(stage string, want []c01cuUtxo) {
	sort.Slice(want, func(i, j int) bool { return want[i].String() < want[j].String() })
	wantSum := uint64(0)
	for _, u := range want {
		wantSum += u.amount
	}

	byAddr, err := e.w.GetUtxo(nil)
	if err != nil {
		e.t.Fatalf("%s: GetUtxo: %v", stage, err)
	}
	got := make([]c01cuUtxo, 0)
	for _, list := range byAddr {
		for _, d := range list {
			got = append(got, c01cuUtxo{txid: d.TxId, vout: d.Vout, amount: d.Amount.UintValue(), height: d.BlockHeight})
		}
	}
	sort.Slice(got, func(i, j int) bool { return got[i].String() < got[j].String() })
	if fmt.Sprint(got) != fmt.Sprint(want) {
		e.t.Errorf("%s: reported unspent outputs differ from the best chain\n  chain : %v\n  wallet: %v", stage, want, got)
	}

	bal, err := e.w.WalletBalance(0, true)
	if err != nil {
		e.t.Fatalf("%s: WalletBalance: %v", stage, err)
	}
	if bal.Total.UintValue() != wantSum {
		e.t.Errorf("%s: total balance %d, best chain pays %d", stage, bal.Total.UintValue(), wantSum)
	}
	if bal.Spendable.UintValue() != wantSum {
		e.t.Errorf("%s: spendable balance %d, best chain lets the next block spend %d", stage, bal.Spendable.UintValue(), wantSum)
	}
}

func c01cuSetup(t *testing.T, name string) (e *c01cuEnv, walletPk, changePk, strangerPk []byte, cleanup func()) {
	chainDb, closeChain, err := newTestChainDB(0)
	if err != nil {
		t.Fatal("newTestChainDB error:", err)
	}
	walletDb, teardown, err := testDB(name)
	if err != nil {
		closeChain()
		t.Fatal("new walletDb error:", err)
	}
	cleanup = func() {
		walletDb.Close()
		teardown()
		closeChain()
	}
	w, err := NewWalletManager(&mockServer{chainDb}, walletDb, cfg, config.ChainParams, pubPassphrase)
	if err != nil {
		cleanup()
		t.Fatal("new wallet manager error:", err)
	}
	wid, _, _, err := w.CreateWallet(privPassphrase, "", defaultBitSize)
	if err != nil {
		cleanup()
		t.Fatal("create wallet error:", err)
	}
	if _, err = w.UseWallet(wid); err != nil {
		cleanup()
		t.Fatal("use wallet error:", err)
	}
	pks := make([][]byte, 0, 2)
	for i := 0; i < 2; i++ {
		addr, err := w.NewAddress(0)
		if err != nil {
			cleanup()
			t.Fatal("new address error:", err)
		}
		a, err := massutil.DecodeAddress(addr, w.chainParams)
		if err != nil {
			cleanup()
			t.Fatal("decode address error:", err)
		}
		pks = append(pks, c01cuScript(t, a.ScriptAddress()))
	}
	strangerHash := make([]byte, 32)
	for i := range strangerHash {
		strangerHash[i] = byte(0xA0 + i)
	}
	e = &c01cuEnv{t: t, chainDb: chainDb, w: w}
	return e, pks[0], pks[1], c01cuScript(t, strangerHash), cleanup
}

const c01cuCoin = uint64(100000000)


// The wallet is at height 1.  The chain gets block 2 (A pays the wallet 10) and block 3 (B spends A:0, 3 back to the
// wallet); only the new tip 3 is announced, so the handler connects 2 and 3 in one wallet-db transaction.
func TestC01CatchUpSpendAcrossBlocksInOneTransaction(t *testing.T) {
	e, walletPk, changePk, strangerPk, cleanup := c01cuSetup(t, "c01catchup")
	defer cleanup()
	coin := c01cuCoin
	genesis := config.ChainParams.GenesisBlock.BlockHash()

	cb1 := c01cuCoinbase(1, wire.NewTxOut(int64(20*coin), strangerPk), wire.NewTxOut(int64(30*coin), strangerPk))
	b1 := c01cuBlock(t, &genesis, 1, 0, cb1)
	cb1Hash := cb1.TxHash()
	txA := c01cuTx([]wire.OutPoint{{Hash: cb1Hash, Index: 0}},
		wire.NewTxOut(int64(10*coin), walletPk), wire.NewTxOut(int64(9*coin), strangerPk))
	aHash := txA.TxHash()
	txB := c01cuTx([]wire.OutPoint{{Hash: aHash, Index: 0}},
		wire.NewTxOut(int64(6*coin), strangerPk), wire.NewTxOut(int64(3*coin), changePk))
	bHash := txB.TxHash()
	b2 := c01cuBlock(t, b1.Hash(), 2, 0, c01cuCoinbase(2, wire.NewTxOut(int64(coin), strangerPk)), txA)
	b3 := c01cuBlock(t, b2.Hash(), 3, 0, c01cuCoinbase(3, wire.NewTxOut(int64(coin), strangerPk)), txB)

	e.chainAttach(b1)
	e.notify(b1)
	e.expectLedger("after block 1", nil)

	e.chainAttach(b2)
	e.chainAttach(b3)
	e.notify(b3) // tip 2 was never announced
	e.expectLedger("after tip 3 (blocks 2 and 3 connected together)",
		[]c01cuUtxo{{txid: bHash.String(), vout: 1, amount: 3 * coin, height: 3}})
}

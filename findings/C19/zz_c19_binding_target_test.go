package api

// Demonstration for C16/C19: extractAddressInfos on a binding output script whose 22-byte target carries an
// unknown type byte. txscript classifies the script as BindingScriptHashTy and returns ONE address (the holder),
// because massutil.NewAddressBindingTarget rejects the target; the function then indexes addrs[1].
// Run: go test -overlay (see /verif/tools/run_finding.sh) -run TestVerifC19BindingTarget ./api

import (
	"testing"

	"github.com/massnetorg/mass-core/txscript"
)

func TestVerifC19BindingTarget(t *testing.T) {
	script := make([]byte, 0, 1+1+32+1+22)
	script = append(script, txscript.OP_0, txscript.OP_DATA_32)
	script = append(script, make([]byte, 32)...)
	script = append(script, txscript.OP_DATA_22)
	target := make([]byte, 22)
	target[20] = 7 // unknown target type
	target[21] = 32
	script = append(script, target...)
	if c := txscript.GetScriptClass(script); c != txscript.BindingScriptHashTy {
		t.Skipf("script class %v", c)
	}
	defer func() {
		if r := recover(); r != nil {
			t.Fatalf("extractAddressInfos panicked on a consensus-shaped binding script: %v", r)
		}
	}()
	_, _, _, _, _, err := extractAddressInfos(script)
	t.Logf("err = %v", err)
}

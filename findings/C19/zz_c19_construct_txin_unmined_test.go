package masswallet

// Demonstration for C19: (*WalletManager).constructTxIn (reached from API CreateRawTransaction) with an input that
// names a PENDING wallet transaction and an output index that transaction does not have.  existsMsgTx misses (the
// outpoint is no mined credit), the fallback existsUnminedTx finds the transaction by hash alone, and
// prevTx.TxOut[txIn.PreviousOutPoint.Index] is indexed without a range check.
// Run: /verif/tools/run_finding.sh /verif/findings/C19/zz_c19_construct_txin_unmined_test.go masswallet TestVerifC19ConstructTxInUnminedVout

import (
	"testing"
	"time"

	"github.com/massnetorg/mass-core/massutil"
	"github.com/massnetorg/mass-core/txscript"
	"github.com/massnetorg/mass-core/wire"
	"massnet.org/mass-wallet/config"
	mwdb "massnet.org/mass-wallet/masswallet/db"
	"massnet.org/mass-wallet/masswallet/txmgr"
)

func TestVerifC19ConstructTxInUnminedVout(t *testing.T) {
	verifC19ConstructTxIn(t, false)
}

// Second site in the same function: when the input is a PENDING binding deposit of the wallet, `block` is nil (only
// mined credits have a block) and the switch evaluates forks.EnforceMASSIP0002WarmUp(block.Height).
func TestVerifC19ConstructTxInUnminedBinding(t *testing.T) {
	verifC19ConstructTxIn(t, true)
}

func verifC19ConstructTxIn(t *testing.T, binding bool) {
	chainDb, closeDb, err := newTestChainDB(0)
	if err != nil {
		t.Fatal(err)
	}
	defer closeDb()
	walletDb, teardown, err := testDB("verifC19ConstructTxIn")
	if err != nil {
		t.Fatal(err)
	}
	defer teardown()
	w, err := NewWalletManager(&mockServer{chainDb}, walletDb, cfg, config.ChainParams, pubPassphrase)
	if err != nil {
		t.Fatal(err)
	}
	walletId, _, _, err := w.CreateWallet(privPassphrase, "", defaultBitSize)
	if err != nil {
		t.Fatal(err)
	}
	if _, err = w.UseWallet(walletId); err != nil {
		t.Fatal(err)
	}
	addr, err := w.NewAddress(0)
	if err != nil {
		t.Fatal(err)
	}
	a, err := massutil.DecodeAddress(addr, w.chainParams)
	if err != nil {
		t.Fatal(err)
	}
	script, err := txscript.PayToWitnessScriptHashScript(a.ScriptAddress())
	if err != nil {
		t.Fatal(err)
	}
	vout := uint32(7)
	if binding {
		script, err = txscript.PayToBindingScriptHashScript(a.ScriptAddress(), make([]byte, 20))
		if err != nil {
			t.Fatal(err)
		}
		vout = 0
	}
	// a pending transaction paying the wallet (one output)
	pending := wire.NewMsgTx()
	pending.AddTxIn(wire.NewTxIn(wire.NewOutPoint(&wire.Hash{1}, 0), nil))
	pending.AddTxOut(wire.NewTxOut(100000000, script))
	rec, _ := txmgr.NewTxRecordFromMsgTx(pending, time.Now())
	rec, err = simpleFilterTx(rec, pending, walletId)
	if err != nil {
		t.Fatal(err)
	}
	err = mwdb.Update(w.db, func(tx mwdb.DBTransaction) error {
		return w.txStore.AddRelevantTx(tx, nil, rec, nil)
	})
	if err != nil {
		t.Fatal("AddRelevantTx:", err)
	}
	h := pending.TxHash()
	defer func() {
		if r := recover(); r != nil {
			t.Fatalf("constructTxIn panicked on a pending transaction (binding=%v, vout=%d): %v", binding, vout, r)
		}
	}()
	_, _, _, err = w.constructTxIn([]*TxIn{{TxId: h.String(), Vout: vout}}, 0)
	t.Logf("err = %v", err)
	if err == nil && !binding {
		t.Fatalf("constructTxIn accepted output index 7 of a one-output transaction")
	}
}

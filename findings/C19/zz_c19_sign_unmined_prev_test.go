package masswallet

// Demonstration for C19: SignRawTx on a transaction that spends an output of a PENDING wallet transaction.
// signWitnessTx records the block of each previous transaction in cacheMeta; for a previous transaction found only
// in the pending store the entry is nil, and after signing the input it evaluates
// forks.EnforceMASSIP0002WarmUp(cacheMeta[hash].Height).
// Run: /verif/tools/run_finding.sh /verif/findings/C19/zz_c19_sign_unmined_prev_test.go masswallet TestVerifC19SignUnminedPrev

import (
	"testing"
	"time"

	"github.com/massnetorg/mass-core/massutil"
	"github.com/massnetorg/mass-core/txscript"
	"github.com/massnetorg/mass-core/wire"
	"massnet.org/mass-wallet/config"
	mwdb "massnet.org/mass-wallet/masswallet/db"
	"massnet.org/mass-wallet/masswallet/txmgr"
)

func TestVerifC19SignUnminedPrev(t *testing.T) {
	chainDb, closeDb, err := newTestChainDB(0)
	if err != nil {
		t.Fatal(err)
	}
	defer closeDb()
	walletDb, teardown, err := testDB("verifC19SignUnmined")
	if err != nil {
		t.Fatal(err)
	}
	defer teardown()
	w, err := NewWalletManager(&mockServer{chainDb}, walletDb, cfg, config.ChainParams, pubPassphrase)
	if err != nil {
		t.Fatal(err)
	}
	walletId, _, _, err := w.CreateWallet(privPassphrase, "", defaultBitSize)
	if err != nil {
		t.Fatal(err)
	}
	if _, err = w.UseWallet(walletId); err != nil {
		t.Fatal(err)
	}
	addr, err := w.NewAddress(0)
	if err != nil {
		t.Fatal(err)
	}
	a, err := massutil.DecodeAddress(addr, w.chainParams)
	if err != nil {
		t.Fatal(err)
	}
	script, err := txscript.PayToWitnessScriptHashScript(a.ScriptAddress())
	if err != nil {
		t.Fatal(err)
	}
	pending := wire.NewMsgTx()
	pending.AddTxIn(wire.NewTxIn(wire.NewOutPoint(&wire.Hash{1}, 0), nil))
	pending.AddTxOut(wire.NewTxOut(100000000, script))
	rec, _ := txmgr.NewTxRecordFromMsgTx(pending, time.Now())
	rec, err = simpleFilterTx(rec, pending, walletId)
	if err != nil {
		t.Fatal(err)
	}
	err = mwdb.Update(w.db, func(tx mwdb.DBTransaction) error {
		return w.txStore.AddRelevantTx(tx, nil, rec, nil)
	})
	if err != nil {
		t.Fatal("AddRelevantTx:", err)
	}
	h := pending.TxHash()
	spend := wire.NewMsgTx()
	spend.AddTxIn(wire.NewTxIn(wire.NewOutPoint(&h, 0), nil))
	spend.AddTxOut(wire.NewTxOut(90000000, script))
	defer func() {
		if r := recover(); r != nil {
			t.Fatalf("SignRawTx panicked on a transaction spending a pending wallet output: %v", r)
		}
	}()
	_, err = w.SignRawTx([]byte(privPassphrase), "ALL", spend)
	t.Logf("err = %v", err)
}

package txmgr

// Demonstration for the repaired defect "Rollback re-inserts a disconnected transaction into the pending bucket in the
// wrong format": after a reorganisation every non-coinbase wallet transaction of a disconnected block must be pending
// again and readable (ExistUnminedTx).  Before fix 8c7e7cc Rollback stored the 28-byte mined location record under the
// pending key and ExistUnminedTx failed to deserialise it.
// Run through go test -overlay (see /verif/tools/run_finding.sh).

import (
	"testing"
	"time"

	"github.com/massnetorg/mass-core/blockchain"
	"github.com/massnetorg/mass-core/massutil"
	"github.com/massnetorg/mass-core/wire"
	mwdb "massnet.org/mass-wallet/masswallet/db"
)

func TestC09RollbackPendingFormat(t *testing.T) {
	chainDb, chainDbTearDown, err := GetDb("TstC09RbChainDb")
	if err != nil {
		t.Fatal(err)
	}
	defer chainDbTearDown()
	if err = initBlocks(chainDb, 40); err != nil {
		t.Fatal("initBlocks failed:", err)
	}
	s, walletDb, teardown, err := testTxStore("TstC09Rb", chainDb)
	if err != nil {
		t.Fatal(err)
	}
	defer teardown()

	const mined = 40
	var wid string
	relevant := map[uint64][]wire.Hash{} // height -> non-coinbase wallet transactions stored at that height
	err = mwdb.Update(walletDb, func(ns mwdb.DBTransaction) error {
		wIds := s.ksmgr.ListKeystoreNames()
		wid = wIds[0]
		if err := s.ksmgr.UseKeystoreForWallet(wid); err != nil {
			return err
		}
		bal := map[string]massutil.Amount{wid: massutil.ZeroAmount()}
		for _, block := range blks200[0:mined] {
			meta := &BlockMeta{Height: block.MsgBlock().Header.Height, Hash: *block.Hash(), Timestamp: block.MsgBlock().Header.Timestamp}
			meta.Loc, err = chainDb.FetchBlockLocByHeight(meta.Height)
			if err != nil {
				return err
			}
			txlocs, err := block.TxLoc()
			if err != nil {
				return err
			}
			for i, tx := range block.Transactions() {
				rec, err := NewTxRecordFromMsgTx(tx.MsgTx(), time.Now())
				if err != nil {
					return err
				}
				rec, err = simpleFilterTx(rec, tx.MsgTx(), s, meta, wid)
				if err != nil {
					return err
				}
				if len(rec.RelevantTxIn) == 0 && len(rec.RelevantTxOut) == 0 {
					continue
				}
				rec.TxLoc = &txlocs[i]
				if err = s.AddRelevantTx(ns, bal, rec, meta); err != nil {
					return err
				}
				if !blockchain.IsCoinBaseTx(tx.MsgTx()) {
					relevant[meta.Height] = append(relevant[meta.Height], rec.Hash)
				}
			}
			if err = s.syncStore.SetSyncedTo(ns, meta); err != nil {
				return err
			}
		}
		return nil
	})
	if err != nil {
		t.Fatal(err)
	}
	// lowest height holding a non-coinbase wallet transaction
	var from uint64
	for h := range relevant {
		if from == 0 || h < from {
			from = h
		}
	}
	if from == 0 {
		t.Skip("fixture has no non-coinbase wallet transaction")
	}
	err = mwdb.Update(walletDb, func(ns mwdb.DBTransaction) error {
		return s.Rollback(ns, from)
	})
	if err != nil {
		t.Fatal("Rollback:", err)
	}
	checked := 0
	err = mwdb.View(walletDb, func(ns mwdb.ReadTransaction) error {
		for h, hashes := range relevant {
			if h < from {
				continue
			}
			for i := range hashes {
				mtx, err := s.ExistUnminedTx(ns, &hashes[i])
				if err != nil {
					t.Errorf("rolled-back transaction %v (height %d) cannot be read from the pending set: %v", hashes[i], h, err)
					continue
				}
				if mtx == nil {
					t.Errorf("rolled-back transaction %v (height %d) is not pending", hashes[i], h)
					continue
				}
				if mtx.TxHash() != hashes[i] {
					t.Errorf("pending set returns a different transaction for %v", hashes[i])
				}
				checked++
			}
		}
		return nil
	})
	if err != nil {
		t.Fatal(err)
	}
	if checked == 0 {
		t.Fatal("nothing checked")
	}
	t.Logf("%d rolled-back transactions read back from the pending set", checked)
}

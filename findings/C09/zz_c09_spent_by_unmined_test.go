package txmgr

// Demonstration for finding C09-P1: a wallet coin spent by a known, unconfirmed transaction must be reported as
// spent-by-unconfirmed.  ExistsUtxo and ScriptAddressUnspents look the marker up under the 78-byte unspent key
// although the bucket is keyed by the 36-byte outpoint, so the flag is never set.
// Place at masswallet/txmgr/zz_c09_spent_by_unmined_test.go (or run through go test -overlay).

import (
	"testing"
	"time"

	"github.com/massnetorg/mass-core/blockchain"
	"github.com/massnetorg/mass-core/massutil"
	mwdb "massnet.org/mass-wallet/masswallet/db"
)

func TestC09SpentByUnminedFlag(t *testing.T) {
	chainDb, chainDbTearDown, err := GetDb("TstC09ChainDb")
	if err != nil {
		t.Fatal(err)
	}
	defer chainDbTearDown()
	if err = initBlocks(chainDb, 40); err != nil {
		t.Fatal("initBlocks failed:", err)
	}
	s, walletDb, teardown, err := testTxStore("TstC09", chainDb)
	if err != nil {
		t.Fatal(err)
	}
	defer teardown()

	const mined = 20
	var wid string
	err = mwdb.Update(walletDb, func(ns mwdb.DBTransaction) error {
		wIds := s.ksmgr.ListKeystoreNames()
		wid = wIds[0]
		if err := s.ksmgr.UseKeystoreForWallet(wid); err != nil {
			return err
		}
		bal := map[string]massutil.Amount{wid: massutil.ZeroAmount()}
		for _, block := range blks200[0:mined] {
			meta := &BlockMeta{Height: block.MsgBlock().Header.Height, Hash: *block.Hash(), Timestamp: block.MsgBlock().Header.Timestamp}
			meta.Loc, err = chainDb.FetchBlockLocByHeight(meta.Height)
			if err != nil {
				return err
			}
			txlocs, err := block.TxLoc()
			if err != nil {
				return err
			}
			for i, tx := range block.Transactions() {
				rec, err := NewTxRecordFromMsgTx(tx.MsgTx(), time.Now())
				if err != nil {
					return err
				}
				rec, err = simpleFilterTx(rec, tx.MsgTx(), s, meta, wid)
				if err != nil {
					return err
				}
				rec.TxLoc = &txlocs[i]
				if err = s.AddRelevantTx(ns, bal, rec, meta); err != nil {
					return err
				}
			}
		}
		return nil
	})
	if err != nil {
		t.Fatal(err)
	}

	// the first non-coinbase transaction of a later block whose inputs are all unspent wallet coins: insert it as PENDING
	checked := 0
	for _, block := range blks200[mined:40] {
		for _, tx := range block.Transactions() {
			if blockchain.IsCoinBaseTx(tx.MsgTx()) {
				continue
			}
			ok := true
			_ = mwdb.View(walletDb, func(ns mwdb.ReadTransaction) error {
				for _, in := range tx.MsgTx().TxIn {
					f, err := s.ExistsUtxo(ns, &in.PreviousOutPoint)
					if err != nil || f == nil || f.Spent || f.IsUnmined {
						ok = false
					}
				}
				return nil
			})
			if !ok {
				continue
			}
			err = mwdb.Update(walletDb, func(ns mwdb.DBTransaction) error {
				rec, err := NewTxRecordFromMsgTx(tx.MsgTx(), time.Now())
				if err != nil {
					return err
				}
				rec, err = simpleFilterTx(rec, tx.MsgTx(), s, nil, wid)
				if err != nil {
					return err
				}
				return s.AddRelevantTx(ns, nil, rec, nil)
			})
			if err != nil {
				t.Fatal("insert pending tx:", err)
			}
			_ = mwdb.View(walletDb, func(ns mwdb.ReadTransaction) error {
				for _, in := range tx.MsgTx().TxIn {
					f, err := s.ExistsUtxo(ns, &in.PreviousOutPoint)
					if err != nil {
						t.Fatal(err)
					}
					checked++
					if !f.SpentByUnmined {
						t.Errorf("coin %v:%d is spent by pending tx %v but ExistsUtxo reports SpentByUnmined=false", in.PreviousOutPoint.Hash, in.PreviousOutPoint.Index, tx.Hash())
					}
				}
				return nil
			})
			if checked > 0 {
				return
			}
		}
	}
	if checked == 0 {
		t.Skip("no suitable pending transaction in the test chain")
	}
}

package txmgr

import (
	"errors"
	"strings"
	"testing"
	"time"

	"github.com/massnetorg/mass-core/massutil"
	"github.com/massnetorg/mass-core/wire"
	mwdb "massnet.org/mass-wallet/masswallet/db"
	_ "massnet.org/mass-wallet/masswallet/db/ldb"
	"massnet.org/mass-wallet/masswallet/utils"
)

func c18gCount(t *testing.T, walletDb mwdb.DB, meta mwdb.BucketMeta) int {
	n := 0
	err := mwdb.View(walletDb, func(tx mwdb.ReadTransaction) error {
		entries, err := fetchAllEntry(tx.FetchBucket(meta))
		n = len(entries)
		return err
	})
	if err != nil {
		t.Fatal(err)
	}
	return n
}

// c18gTx wraps a write transaction: while *broken, every Get on the bucket named by failMeta reports a storage error.
type c18gTx struct {
	mwdb.DBTransaction
	failMeta mwdb.BucketMeta
	broken   *bool
	faults   *int
}

type c18gInner = mwdb.Bucket

type c18gBucket struct {
	c18gInner
	broken *bool
	faults *int
}

var errC18gInjected = errors.New("injected storage read error")

func (b c18gBucket) Get(key []byte) ([]byte, error) {
	if *b.broken {
		*b.faults++
		return nil, errC18gInjected
	}
	return b.c18gInner.Get(key)
}

func (t c18gTx) FetchBucket(meta mwdb.BucketMeta) mwdb.Bucket {
	b := t.DBTransaction.FetchBucket(meta)
	if meta == t.failMeta {
		return c18gBucket{b, t.broken, t.faults}
	}
	return b
}

// The wallet owns two confirmed, unspent coins (both outputs of tx1 of block 21) and has a pending
// (unconfirmed) transaction that spends both of them and pays the change back to the wallet.
// Then a block arrives whose transaction B spends the first coin differently (a double spend of the pending
// transaction).  Connecting it must drop the now conflicting pending transaction.  C18: if the storage layer reports
// read errors on the pending-spend marker bucket while the block is processed, the step has to report failure (and
// is repeated), so that the end state is that of a run without the fault.  Before the fix the read error was
// discarded ("no pending spender"), the step succeeded and the conflicting pending transaction stayed forever.
func TestC18FindingMarkerReadErrorNotSwallowed(t *testing.T) {
	const height = 21

	chainDb, chainDbTearDown, err := GetDb("TstC18GndChainDb")
	if err != nil {
		t.Fatal(err)
	}
	defer chainDbTearDown()
	if err = initBlocks(chainDb, height+2); err != nil {
		t.Fatal("initBlocks failed:", err)
	}

	s, walletDb, teardown, err := testTxStore("TstC18GndWallet", chainDb)
	if err != nil {
		t.Fatal(err)
	}
	defer teardown()

	walletId := s.ksmgr.ListKeystoreNames()[0]
	if err = s.ksmgr.UseKeystoreForWallet(walletId); err != nil {
		t.Fatal(err)
	}

	block := blks200[height]
	if block.Height() != height || len(block.Transactions()) != 5 {
		t.Fatalf("unexpected fixture block: height %d, %d txs", block.Height(), len(block.Transactions()))
	}
	minedTx := block.Transactions()[1].MsgTx()   // 1 input, 2 outputs (both to the wallet)
	pendingTx := block.Transactions()[2].MsgTx() // spends minedTx:0 and minedTx:1, 2 outputs
	minedHash := minedTx.TxHash()
	pendingHash := pendingTx.TxHash()
	if len(minedTx.TxOut) != 2 || len(pendingTx.TxIn) != 2 || len(pendingTx.TxOut) != 2 {
		t.Fatal("unexpected fixture transactions")
	}
	for _, in := range pendingTx.TxIn {
		if in.PreviousOutPoint.Hash != minedHash {
			t.Fatal("unexpected fixture: pending tx does not spend the mined tx")
		}
	}

	parse := func(pkScript []byte) utils.PkScript {
		ps, err := utils.ParsePkScript(pkScript, s.chainParams)
		if err != nil {
			t.Fatal(err)
		}
		return ps
	}
	coinScript := parse(minedTx.TxOut[0].PkScript)
	if string(parse(minedTx.TxOut[1].PkScript).StdScriptAddress()) != string(coinScript.StdScriptAddress()) {
		t.Fatal("unexpected fixture: outputs of the mined tx pay different addresses")
	}
	changeScript := parse(pendingTx.TxOut[1].PkScript) // change back to the wallet; TxOut[0] pays a stranger
	_ = map[string][]byte{
		coinScript.StdEncodeAddress():   coinScript.StdScriptAddress(),
		changeScript.StdEncodeAddress(): changeScript.StdScriptAddress(),
	}

	blockMeta := &BlockMeta{
		Height:    block.MsgBlock().Header.Height,
		Hash:      *block.Hash(),
		Timestamp: block.MsgBlock().Header.Timestamp,
	}
	blockMeta.Loc, err = chainDb.FetchBlockLocByHeight(blockMeta.Height)
	if err != nil {
		t.Fatal(err)
	}
	txlocs, err := block.TxLoc()
	if err != nil {
		t.Fatal(err)
	}

	newMinedRec := func() *TxRecord {
		rec, err := NewTxRecordFromMsgTx(minedTx, time.Now())
		if err != nil {
			t.Fatal(err)
		}
		for i := range minedTx.TxOut {
			rec.RelevantTxOut = append(rec.RelevantTxOut, &RelevantMeta{Index: i, PkScript: coinScript, WalletId: walletId})
		}
		rec.TxLoc = &txlocs[1]
		return rec
	}

	// 1. the confirmed tx that pays the wallet twice
	err = mwdb.Update(walletDb, func(ns mwdb.DBTransaction) error {
		balances := map[string]massutil.Amount{walletId: massutil.ZeroAmount()}
		if err := s.AddRelevantTx(ns, balances, newMinedRec(), blockMeta); err != nil {
			return err
		}
		return s.utxoStore.UpdateMinedBalances(ns, balances)
	})
	if err != nil {
		t.Fatal(err)
	}

	// 2. the pending tx of the wallet that spends both coins
	err = mwdb.Update(walletDb, func(ns mwdb.DBTransaction) error {
		rec, err := NewTxRecordFromMsgTx(pendingTx, time.Now())
		if err != nil {
			return err
		}
		for i := range pendingTx.TxIn {
			rec.RelevantTxIn = append(rec.RelevantTxIn, &RelevantMeta{Index: i, PkScript: coinScript, WalletId: walletId})
		}
		rec.RelevantTxOut = append(rec.RelevantTxOut, &RelevantMeta{Index: 1, PkScript: changeScript, WalletId: walletId, IsChangeAddr: true})
		return s.AddRelevantTx(ns, nil, rec, nil)
	})
	if err != nil {
		t.Fatal(err)
	}

	coins := []wire.OutPoint{{Hash: minedHash, Index: 0}, {Hash: minedHash, Index: 1}}

	// state before the removal
	err = mwdb.View(walletDb, func(tx mwdb.ReadTransaction) error {
		for _, op := range coins {
			op := op
			flags, err := s.ExistsUtxo(tx, &op)
			if err != nil {
				return err
			}
			if flags.Spent || !flags.SpentByUnmined {
				t.Errorf("before removal: coin %v: unexpected flags %+v", op, flags)
			}
		}
		if _, err := s.ExistUnminedTx(tx, &pendingHash); err != nil {
			t.Errorf("before removal: pending tx not stored: %v", err)
		}
		return nil
	})
	if err != nil {
		t.Fatal(err)
	}
	if n := c18gCount(t, walletDb, s.bucketMeta.nsUnminedInputs); n != 2 {
		t.Fatalf("before removal: %d unmined input records, want 2", n)
	}

	// 3. block 22 confirms B, which spends coin 0 differently
	confl := wire.NewMsgTx()
	confl.AddTxIn(wire.NewTxIn(&coins[0], nil))
	confl.AddTxOut(wire.NewTxOut(minedTx.TxOut[0].Value-10000, pendingTx.TxOut[0].PkScript)) // to a stranger
	block2 := blks200[height+1]
	blockMeta2 := &BlockMeta{
		Height:    block2.MsgBlock().Header.Height,
		Hash:      *block2.Hash(),
		Timestamp: block2.MsgBlock().Header.Timestamp,
	}
	blockMeta2.Loc, err = chainDb.FetchBlockLocByHeight(blockMeta2.Height)
	if err != nil {
		t.Fatal(err)
	}
	txlocs2, err := block2.TxLoc()
	if err != nil {
		t.Fatal(err)
	}
	newConflRec := func() *TxRecord {
		rec, err := NewTxRecordFromMsgTx(confl, time.Now())
		if err != nil {
			t.Fatal(err)
		}
		rec.RelevantTxIn = append(rec.RelevantTxIn, &RelevantMeta{Index: 0, PkScript: coinScript, WalletId: walletId})
		rec.TxLoc = &txlocs2[0]
		return rec
	}

	broken, faults := true, 0
	for attempt := 0; ; attempt++ {
		if attempt > 3 {
			t.Fatal("block is never connected")
		}
		err = mwdb.Update(walletDb, func(ns mwdb.DBTransaction) error {
			wtx := c18gTx{ns, s.bucketMeta.nsUnminedInputs, &broken, &faults}
			balances, err := s.utxoStore.FetchAllMinedBalance(wtx)
			if err != nil {
				return err
			}
			if err := s.AddRelevantTx(wtx, balances, newConflRec(), blockMeta2); err != nil {
				return err
			}
			return s.utxoStore.UpdateMinedBalances(wtx, balances)
		})
		wasBroken := broken
		broken = false // storage works again from the next attempt on
		if err != nil && strings.Contains(err.Error(), errC18gInjected.Error()) {
			continue // failure reported: the step is repeated
		}
		if err != nil {
			t.Fatal(err)
		}
		if wasBroken && faults > 0 {
			t.Errorf("the storage layer reported %d read error(s) while the block was connected, the step reported success", faults)
		}
		break
	}

	// 4. end state of the fault-free run: the conflicting pending transaction is gone, coin 0 is spent by B
	err = mwdb.View(walletDb, func(tx mwdb.ReadTransaction) error {
		if _, err := s.ExistUnminedTx(tx, &pendingHash); err != ErrNotFound {
			t.Errorf("after block 22: the pending transaction that double-spends coin 0 is still stored (err=%v)", err)
		}
		return nil
	})
	if err != nil {
		t.Fatal(err)
	}
}

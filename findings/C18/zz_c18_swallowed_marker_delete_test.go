package txmgr

import (
	"errors"
	"strings"
	"testing"
	"time"

	"github.com/massnetorg/mass-core/massutil"
	"github.com/massnetorg/mass-core/wire"
	mwdb "massnet.org/mass-wallet/masswallet/db"
	_ "massnet.org/mass-wallet/masswallet/db/ldb"
	"massnet.org/mass-wallet/masswallet/keystore"
	"massnet.org/mass-wallet/masswallet/utils"
)

func c18fCount(t *testing.T, walletDb mwdb.DB, meta mwdb.BucketMeta) int {
	n := 0
	err := mwdb.View(walletDb, func(tx mwdb.ReadTransaction) error {
		entries, err := fetchAllEntry(tx.FetchBucket(meta))
		n = len(entries)
		return err
	})
	if err != nil {
		t.Fatal(err)
	}
	return n
}

// c18fTx wraps a write transaction: the bucket named by failMeta refuses one Delete (an injected storage error).
type c18fTx struct {
	mwdb.DBTransaction
	failMeta mwdb.BucketMeta
	fired    *int
}

type c18fInner = mwdb.Bucket

type c18fBucket struct {
	c18fInner
	fired *int
}

var errC18fInjected = errors.New("injected storage error")

// *fired < 0: storage works; otherwise every Delete on the bucket fails and is counted
func (b c18fBucket) Delete(key []byte) error {
	if *b.fired >= 0 {
		*b.fired++
		return errC18fInjected
	}
	return b.c18fInner.Delete(key)
}

func (t c18fTx) FetchBucket(meta mwdb.BucketMeta) mwdb.Bucket {
	b := t.DBTransaction.FetchBucket(meta)
	if meta == t.failMeta {
		return c18fBucket{b, t.fired}
	}
	return b
}

// The wallet owns two confirmed, unspent coins (both outputs of tx1 of block 21) and has a pending
// (unconfirmed) transaction that spends both of them and pays the change back to the wallet.
// The wallet is removed in that state. Afterwards nothing that is keyed by the wallet's coins may be
// left: in particular the "spent by a pending transaction" markers of the two coins must be gone, so
// that after importing the same wallet again the two coins are plain spendable coins.
func TestC18FindingMarkerDeleteErrorNotSwallowed(t *testing.T) {
	const height = 21

	chainDb, chainDbTearDown, err := GetDb("TstC18FndChainDb")
	if err != nil {
		t.Fatal(err)
	}
	defer chainDbTearDown()
	if err = initBlocks(chainDb, height+2); err != nil {
		t.Fatal("initBlocks failed:", err)
	}

	s, walletDb, teardown, err := testTxStore("TstC18FndWallet", chainDb)
	if err != nil {
		t.Fatal(err)
	}
	defer teardown()

	walletId := s.ksmgr.ListKeystoreNames()[0]
	if err = s.ksmgr.UseKeystoreForWallet(walletId); err != nil {
		t.Fatal(err)
	}

	block := blks200[height]
	if block.Height() != height || len(block.Transactions()) != 5 {
		t.Fatalf("unexpected fixture block: height %d, %d txs", block.Height(), len(block.Transactions()))
	}
	minedTx := block.Transactions()[1].MsgTx()   // 1 input, 2 outputs (both to the wallet)
	pendingTx := block.Transactions()[2].MsgTx() // spends minedTx:0 and minedTx:1, 2 outputs
	minedHash := minedTx.TxHash()
	pendingHash := pendingTx.TxHash()
	if len(minedTx.TxOut) != 2 || len(pendingTx.TxIn) != 2 || len(pendingTx.TxOut) != 2 {
		t.Fatal("unexpected fixture transactions")
	}
	for _, in := range pendingTx.TxIn {
		if in.PreviousOutPoint.Hash != minedHash {
			t.Fatal("unexpected fixture: pending tx does not spend the mined tx")
		}
	}

	parse := func(pkScript []byte) utils.PkScript {
		ps, err := utils.ParsePkScript(pkScript, s.chainParams)
		if err != nil {
			t.Fatal(err)
		}
		return ps
	}
	coinScript := parse(minedTx.TxOut[0].PkScript)
	if string(parse(minedTx.TxOut[1].PkScript).StdScriptAddress()) != string(coinScript.StdScriptAddress()) {
		t.Fatal("unexpected fixture: outputs of the mined tx pay different addresses")
	}
	changeScript := parse(pendingTx.TxOut[1].PkScript) // change back to the wallet; TxOut[0] pays a stranger
	walletAddresses := map[string][]byte{
		coinScript.StdEncodeAddress():   coinScript.StdScriptAddress(),
		changeScript.StdEncodeAddress(): changeScript.StdScriptAddress(),
	}

	blockMeta := &BlockMeta{
		Height:    block.MsgBlock().Header.Height,
		Hash:      *block.Hash(),
		Timestamp: block.MsgBlock().Header.Timestamp,
	}
	blockMeta.Loc, err = chainDb.FetchBlockLocByHeight(blockMeta.Height)
	if err != nil {
		t.Fatal(err)
	}
	txlocs, err := block.TxLoc()
	if err != nil {
		t.Fatal(err)
	}

	newMinedRec := func() *TxRecord {
		rec, err := NewTxRecordFromMsgTx(minedTx, time.Now())
		if err != nil {
			t.Fatal(err)
		}
		for i := range minedTx.TxOut {
			rec.RelevantTxOut = append(rec.RelevantTxOut, &RelevantMeta{Index: i, PkScript: coinScript, WalletId: walletId})
		}
		rec.TxLoc = &txlocs[1]
		return rec
	}

	// 1. the confirmed tx that pays the wallet twice
	err = mwdb.Update(walletDb, func(ns mwdb.DBTransaction) error {
		balances := map[string]massutil.Amount{walletId: massutil.ZeroAmount()}
		if err := s.AddRelevantTx(ns, balances, newMinedRec(), blockMeta); err != nil {
			return err
		}
		return s.utxoStore.UpdateMinedBalances(ns, balances)
	})
	if err != nil {
		t.Fatal(err)
	}

	// 2. the pending tx of the wallet that spends both coins
	err = mwdb.Update(walletDb, func(ns mwdb.DBTransaction) error {
		rec, err := NewTxRecordFromMsgTx(pendingTx, time.Now())
		if err != nil {
			return err
		}
		for i := range pendingTx.TxIn {
			rec.RelevantTxIn = append(rec.RelevantTxIn, &RelevantMeta{Index: i, PkScript: coinScript, WalletId: walletId})
		}
		rec.RelevantTxOut = append(rec.RelevantTxOut, &RelevantMeta{Index: 1, PkScript: changeScript, WalletId: walletId, IsChangeAddr: true})
		return s.AddRelevantTx(ns, nil, rec, nil)
	})
	if err != nil {
		t.Fatal(err)
	}

	coins := []wire.OutPoint{{Hash: minedHash, Index: 0}, {Hash: minedHash, Index: 1}}

	// state before the removal
	err = mwdb.View(walletDb, func(tx mwdb.ReadTransaction) error {
		for _, op := range coins {
			op := op
			flags, err := s.ExistsUtxo(tx, &op)
			if err != nil {
				return err
			}
			if flags.Spent || !flags.SpentByUnmined {
				t.Errorf("before removal: coin %v: unexpected flags %+v", op, flags)
			}
		}
		if _, err := s.ExistUnminedTx(tx, &pendingHash); err != nil {
			t.Errorf("before removal: pending tx not stored: %v", err)
		}
		return nil
	})
	if err != nil {
		t.Fatal(err)
	}
	if n := c18fCount(t, walletDb, s.bucketMeta.nsUnminedInputs); n != 2 {
		t.Fatalf("before removal: %d unmined input records, want 2", n)
	}

	// 3. remove the wallet: the same store calls, in the same order, as the removal task
	mam := keystore.NewMockAddrManager(walletId, walletAddresses)
	err = mwdb.Update(walletDb, func(ns mwdb.DBTransaction) error {
		if err := s.utxoStore.RemoveUnspentByWalletId(ns, walletId); err != nil {
			return err
		}
		if err := s.utxoStore.RemoveAddressByWalletId(ns, walletId); err != nil {
			return err
		}
		if err := s.utxoStore.RemoveGameHistoryByWalletId(ns, walletId); err != nil {
			return err
		}
		return s.utxoStore.RemoveMinedBalance(ns, walletId)
	})
	if err != nil {
		t.Fatal(err)
	}
	// C18: the storage layer is broken for the pending-spend marker bucket during the first removal step (every
	// delete there reports an error) and works again afterwards.  The step must report
	// failure (its transaction is rolled back) and is repeated, as the removal task does; the end state must be
	// that of a run without the fault.  Before the fix the error was discarded, the step "succeeded" and the
	// marker stayed behind.
	fired := 0
	reported := false
	for step := 0; ; step++ {
		if step > 5 {
			t.Fatal("removal does not finish")
		}
		finish := false
		err = mwdb.Update(walletDb, func(ns mwdb.DBTransaction) (err error) {
			_, finish, err = s.RemoveRelevantTx(c18fTx{ns, s.bucketMeta.nsUnminedInputs, &fired}, mam)
			return err
		})
		faults := fired
		fired = -1 // storage works again from the next step on
		if err != nil && strings.Contains(err.Error(), errC18fInjected.Error()) {
			reported = true
			continue // retried
		}
		if faults > 0 && err == nil {
			t.Errorf("the storage layer reported %d error(s) during the removal step, the step reported success", faults)
		}
		if err != nil {
			t.Fatal(err)
		}
		if finish {
			break
		}
	}
	_ = reported

	// 4. nothing of the wallet is left
	for name, meta := range map[string]mwdb.BucketMeta{
		"unspent":         s.bucketMeta.nsUnspent,
		"credits":         s.bucketMeta.nsCredits,
		"debits":          s.bucketMeta.nsDebits,
		"unmined credits": s.bucketMeta.nsUnminedCredits,
		"unmined txs":     s.bucketMeta.nsUnmined,
		"tx records":      s.bucketMeta.nsTxRecords,
		"block records":   s.bucketMeta.nsBlocks,
		"mined balances":  s.bucketMeta.nsMinedBalance,
		"unmined inputs":  s.bucketMeta.nsUnminedInputs,
	} {
		if n := c18fCount(t, walletDb, meta); n != 0 {
			t.Errorf("after removal: %d record(s) left in bucket %q", n, name)
		}
	}

	// 5. the same wallet is imported again and finds its confirmed tx on the chain again. It knows
	// of no pending transaction, so both coins must be ordinary unspent coins.
	err = mwdb.Update(walletDb, func(ns mwdb.DBTransaction) error {
		balances := map[string]massutil.Amount{walletId: massutil.ZeroAmount()}
		if err := s.AddRelevantTxForImporting(ns, balances, newMinedRec(), blockMeta); err != nil {
			return err
		}
		return s.utxoStore.UpdateMinedBalances(ns, balances)
	})
	if err != nil {
		t.Fatal(err)
	}
	err = mwdb.View(walletDb, func(tx mwdb.ReadTransaction) error {
		if _, err := s.ExistUnminedTx(tx, &pendingHash); err != ErrNotFound {
			t.Errorf("after re-import: pending tx unexpectedly known: %v", err)
		}
		for _, op := range coins {
			op := op
			flags, err := s.ExistsUtxo(tx, &op)
			if err != nil {
				return err
			}
			if flags.Spent || flags.SpentByUnmined {
				t.Errorf("after re-import: coin %v is not spendable: flags %+v", op, flags)
			}
		}
		return nil
	})
	if err != nil {
		t.Fatal(err)
	}
}

package utils

// Demonstration for C16: a staking output script whose 8-byte frozen-period operand is all ones matches the
// consensus library's staking template (isWitnessStakingScript accepts any OP_DATA_8 operand), and ParsePkScript
// reads its maturity as frozen period + 1 computed in uint64: it wraps to 0, i.e. "mature at once".
// Run: /verif/tools/run_finding.sh /verif/findings/C16/zz_c16_maturity_wrap_test.go masswallet/utils TestVerifC16MaturityWrap

import (
	"testing"

	"github.com/massnetorg/mass-core/txscript"
	"massnet.org/mass-wallet/config"
)

func TestVerifC16MaturityWrap(t *testing.T) {
	script := []byte{txscript.OP_0, txscript.OP_DATA_32}
	script = append(script, make([]byte, 32)...)
	script = append(script, txscript.OP_DATA_8, 0xff, 0xff, 0xff, 0xff, 0xff, 0xff, 0xff, 0xff)
	if c := txscript.GetScriptClass(script); c != txscript.StakingScriptHashTy {
		t.Skipf("class %v", c)
	}
	ps, err := ParsePkScript(script, config.ChainParams)
	if err != nil {
		t.Skipf("rejected: %v", err)
	}
	if ps.Maturity() == 0 {
		t.Fatalf("staking script with frozen period 2^64-1 read with maturity %d (frozen period + 1 wrapped)", ps.Maturity())
	}
}

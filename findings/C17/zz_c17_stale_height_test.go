package txmgr

// Demonstration for finding C17 (stale sync height): a balance query that uses a sync height read BEFORE later blocks
// were applied sees credits above that height; `syncHeight - height + 1` wraps (unsigned) and an immature coinbase is
// reported spendable.  Place at masswallet/txmgr/zz_c17_stale_height_test.go (or run through go test -overlay).

import (
	"testing"
	"time"

	"github.com/massnetorg/mass-core/massutil"
	"github.com/massnetorg/mass-core/wire"
	mwdb "massnet.org/mass-wallet/masswallet/db"
	"massnet.org/mass-wallet/masswallet/utils"
)

type c17NoPool struct{}

func (c17NoPool) CheckPoolOutPointSpend(op *wire.OutPoint) bool { return false }

func TestC17StaleSyncHeight(t *testing.T) {
	chainDb, chainDbTearDown, err := GetDb("TstC17ChainDb")
	if err != nil {
		t.Fatal(err)
	}
	defer chainDbTearDown()
	if err = initBlocks(chainDb, 25); err != nil {
		t.Fatal("initBlocks failed:", err)
	}
	s, walletDb, teardown, err := testTxStore("TstC17", chainDb)
	if err != nil {
		t.Fatal(err)
	}
	defer teardown()

	scripts := map[string]struct{}{}
	err = mwdb.Update(walletDb, func(ns mwdb.DBTransaction) error {
		wIds := s.ksmgr.ListKeystoreNames()
		if err := s.ksmgr.UseKeystoreForWallet(wIds[0]); err != nil {
			return err
		}
		bal := map[string]massutil.Amount{wIds[0]: massutil.ZeroAmount()}
		for _, block := range blks200[0:25] {
			meta := &BlockMeta{Height: block.MsgBlock().Header.Height, Hash: *block.Hash(), Timestamp: block.MsgBlock().Header.Timestamp}
			meta.Loc, err = chainDb.FetchBlockLocByHeight(meta.Height)
			if err != nil {
				return err
			}
			txlocs, err := block.TxLoc()
			if err != nil {
				return err
			}
			for i, tx := range block.Transactions() {
				rec, err := NewTxRecordFromMsgTx(tx.MsgTx(), time.Now())
				if err != nil {
					return err
				}
				rec, err = simpleFilterTx(rec, tx.MsgTx(), s, meta, wIds[0])
				if err != nil {
					return err
				}
				rec.TxLoc = &txlocs[i]
				if err = s.AddRelevantTx(ns, bal, rec, meta); err != nil {
					return err
				}
				for _, out := range tx.MsgTx().TxOut {
					if ps, err := utils.ParsePkScript(out.PkScript, s.chainParams); err == nil {
						scripts[string(ps.StdScriptAddress())] = struct{}{}
					}
				}
			}
		}
		return nil
	})
	if err != nil {
		t.Fatal(err)
	}
	spendableAt := func(sync uint64) uint64 {
		var sum uint64
		_ = mwdb.View(walletDb, func(ns mwdb.ReadTransaction) error {
			m, err := s.utxoStore.ScriptAddressBalance(ns, scripts, 1, sync, c17NoPool{})
			if err != nil {
				t.Fatal(err)
			}
			for _, b := range m {
				sum += b.Spendable.UintValue()
			}
			return nil
		})
		return sum
	}
	fresh := spendableAt(24) // consistent view: tip height 24
	stale := spendableAt(22) // sync height read two blocks earlier than the coins now stored
	t.Logf("spendable with sync=24: %d, with stale sync=22: %d", fresh, stale)
	// every coinbase of heights 1..24 needs 1000 confirmations: nothing mined above height 22 may be spendable at 22
	if stale > fresh {
		t.Fatalf("stale sync height reports MORE spendable (%d) than the consistent view (%d): immature coins counted as spendable", stale, fresh)
	}
}

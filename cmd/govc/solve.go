package main

// SMT-LIB emission (two flavours) and the solver portfolio.

import (
	"regexp"
	"bytes"
	"context"
	"fmt"
	"os"
	"os/exec"
	"path/filepath"
	"strings"
	"sync"
	"time"
)

type solverSpec struct {
	name   string
	bin    string
	lambda bool
	args   func(timeoutS int, file string) []string
}

var fastOnly bool // govc sweep: only the fast path of the portfolio

var solvers = []solverSpec{
	{"z3-5.1.0", "z3-new", true, func(t int, f string) []string { return []string{fmt.Sprintf("-T:%d", t), f} }},
	{"z3-4.8.12", "z3", true, func(t int, f string) []string { return []string{fmt.Sprintf("-T:%d", t), f} }},
	{"cvc5-1.0", "cvc5", false, func(t int, f string) []string {
		return []string{fmt.Sprintf("--tlimit=%d", t*1000), "--produce-models", f}
	}},
}

// emit renders one obligation.
func (e *Engine) emit(o *Oblig, lambda bool, withModel bool, rounds ...int) string {
	maxRounds := 0 // 0: relevance closure to a fixpoint; n: only facts within n hops of the goal (slim variant)
	if len(rounds) > 0 {
		maxRounds = rounds[0]
	}
	// quantLevel: which universally quantified assumptions are emitted.  0: all; 1: only those written in contracts
	// (requires, callee postconditions, loop invariants, asserted lemmas), none of the engine's own memory-model
	// axioms; 2: asserted lemmas only.  Fewer assumptions: `unsat` stays conclusive.
	quantLevel := 0
	if len(rounds) > 1 {
		quantLevel = rounds[1]
	}
	quantAllowed := func(origin string) bool {
		switch quantLevel {
		case 1:
			return origin == "requires" || strings.HasPrefix(origin, "ensures of") || strings.HasPrefix(origin, "loop invariant") || origin == "asserted lemma"
		case 2:
			return origin == "asserted lemma"
		}
		return true
	}
	// Relevance: start from the goal; a fact is kept when it shares a specific (non-ubiquitous) symbol with the
	// cone, or consists of ubiquitous symbols only (frame axioms, heap facts); iterate to a fixpoint.  Sound:
	// dropping assumptions can only make an obligation harder to discharge.
	allDefs := append(append([]Def(nil), e.defs[:o.ndefs]...), o.xDefs...)
	defBody := map[string]string{}
	for _, d := range allDefs {
		if d.body != "" {
			defBody[d.name] = d.body
		}
	}
	need := map[string]bool{}
	var closeOver func(sym string)
	closeOver = func(sym string) {
		if need[sym] {
			return
		}
		need[sym] = true
		if b, ok := defBody[sym]; ok {
			ss := map[string]bool{}
			symbolsOf(b, ss)
			for x := range ss {
				closeOver(x)
			}
		}
	}
	addSyms := func(text string) {
		ss := map[string]bool{}
		symbolsOf(text, ss)
		for x := range ss {
			closeOver(x)
		}
	}
	// path conditions of the goal (full closure): which guards are on the goal's path
	addSyms(o.goal.s)
	for _, f := range o.extraFacts {
		addSyms(f.s)
	}
	pathNeed := need
	if maxRounds > 0 {
		// slim variant: relevance does not flow through the definitions of path conditions (they mention nearly
		// every symbol of the path); the definitions themselves are still emitted
		need = map[string]bool{}
		closeOver = func(sym string) {
			if need[sym] {
				return
			}
			need[sym] = true
			if strings.HasPrefix(sym, "pc!") {
				return
			}
			if b, ok := defBody[sym]; ok {
				ss := map[string]bool{}
				symbolsOf(b, ss)
				for x := range ss {
					closeOver(x)
				}
			}
		}
		addSyms(o.goal.s)
		for _, f := range o.extraFacts {
			addSyms(f.s)
		}
	}
	// path relevance: a fact assumed under path condition pc!X can only matter when pc!X is the goal's own path
	// condition or one it was derived from (its definition reaches pc!X); facts of sibling paths (e.g. the body
	// of an earlier loop) are dropped.  Sound for the same reason: fewer assumptions.
	onPath := map[string]bool{}
	for x := range pathNeed {
		if strings.HasPrefix(x, "pc!") {
			onPath[x] = true
		}
	}
	type factRec struct {
		guard string
		text string
		syms []string // specific symbols
		all  []string // every generated symbol (name!N) it mentions
		kept bool
	}
	declared := map[string]bool{}
	for _, d := range allDefs {
		declared[d.name] = true
	}
	for _, d := range e.heapDecls {
		declared[d.name] = true
	}
	var recs []*factRec
	collect := func(text, origin string) {
		if quantLevel > 0 && (strings.Contains(text, "(forall ") || strings.Contains(text, "(exists ")) && !quantAllowed(origin) {
			return
		}
		ss := map[string]bool{}
		symbolsOf(text, ss)
		r := &factRec{text: text}
		if strings.HasPrefix(text, "(=> pc!") {
			if i := strings.IndexByte(text[4:], ' '); i > 0 {
				r.guard = text[4 : 4+i]
			}
		}
		bound := boundVars(text)
		for x := range ss {
			if strings.Contains(x, "!") && !bound[x] {
				r.all = append(r.all, x)
			}
		}
		if !strings.HasPrefix(origin, "frame") { // frame facts are always kept
			for x := range ss {
				if !ubiquitous(x) && !bound[x] {
					r.syms = append(r.syms, x)
				}
			}
		}
		recs = append(recs, r)
	}
	for _, f := range e.gfacts {
		collect(f.t.s, f.origin)
	}
	for _, f := range e.facts[:o.nfacts] {
		collect(f.t.s, f.origin)
	}
	for _, f := range o.xFacts {
		collect(f.t.s, f.origin)
	}
	for round, changed := 0, true; changed && (maxRounds == 0 || round < maxRounds); round++ {
		changed = false
		var pending []string
		for _, r := range recs {
			if r.kept {
				continue
			}
			inScope := true
			for _, x := range r.all {
				if !declared[x] {
					inScope = false // mentions a symbol created after this obligation: not an assumption of it
					break
				}
			}
			if !inScope {
				continue
			}
			if r.guard != "" && !onPath[r.guard] && os.Getenv("GOVC_NOPATH") == "" {
				g, ok := r.guard, false
				for i := 0; i < 64 && !ok; i++ {
					p, has := e.exprPcParent[g]
					if !has {
						break
					}
					g, ok = p, onPath[p]
					if !ok && !strings.HasPrefix(p, "pc!") {
						// the refined condition was an unnamed combination of path conditions (a merged state)
						ss := map[string]bool{}
						symbolsOf(p, ss)
						ok = true
						for x := range ss {
							if strings.HasPrefix(x, "pc!") && !onPath[x] {
								ok = false
							}
						}
					}
				}
				if !ok {
					continue
				}
			}
			rel := len(r.syms) == 0
			for _, x := range r.syms {
				if need[x] {
					rel = true
					break
				}
			}
			if rel {
				r.kept = true
				changed = true
				if maxRounds == 0 {
					addSyms(r.text)
				} else {
					pending = append(pending, r.text) // hop-exact: symbols become visible in the next round
				}
			}
		}
		for _, t := range pending {
			addSyms(t)
		}
	}
	if maxRounds > 0 {
		// emission needs every symbol the kept text mentions, path conditions expanded
		need = map[string]bool{}
		closeOver = func(sym string) {
			if need[sym] {
				return
			}
			need[sym] = true
			if b, ok := defBody[sym]; ok {
				ss := map[string]bool{}
				symbolsOf(b, ss)
				for x := range ss {
					closeOver(x)
				}
			}
		}
		addSyms(o.goal.s)
		for _, f := range o.extraFacts {
			addSyms(f.s)
		}
		for _, r := range recs {
			if r.kept {
				addSyms(r.text)
			}
		}
	}
	defs := allDefs
	var b strings.Builder
	if withModel {
		b.WriteString("(set-option :produce-models true)\n")
	}
	b.WriteString("(set-logic ALL)\n")
	for _, n := range e.ufOrder {
		b.WriteString(e.uf[n])
		b.WriteByte('\n')
	}
	var axioms []string
	for _, d := range e.heapDecls {
		if need[d.name] {
			fmt.Fprintf(&b, "(declare-const %s %s)\n", d.name, d.sort)
		}
	}
	for _, d := range defs {
		if !need[d.name] {
			continue
		}
		switch {
		case d.body == "":
			fmt.Fprintf(&b, "(declare-const %s %s)\n", d.name, d.sort)
		case d.lambda && !lambda:
			fmt.Fprintf(&b, "(declare-const %s %s)\n", d.name, d.sort)
			fmt.Fprintf(&b, "(assert %s)\n", stripPattern(d.axiom))
			_ = axioms
		default:
			fmt.Fprintf(&b, "(define-fun %s () %s %s)\n", d.name, d.sort, d.body)
		}
	}
	for _, r := range recs {
		if r.kept {
			fmt.Fprintf(&b, "(assert %s)\n", r.text)
		}
	}
	for _, f := range o.extraFacts {
		fmt.Fprintf(&b, "(assert %s)\n", f.s)
	}
	// ground extensionality for the string identities in the cone: distinct identities differ in length or in a byte
	var ids []T
	for _, id := range append(append([]T(nil), e.strIDsAt(o)...), o.xStrIDs...) {
		if need[id.s] {
			ids = append(ids, id)
		}
	}
	if len(ids) <= 40 {
		for i := 0; i < len(ids); i++ {
			for j := i + 1; j < len(ids); j++ {
				li, oki := e.strLens[ids[i].s]
				lj, okj := e.strLens[ids[j].s]
				if oki && okj {
					if li != lj {
						continue // different lengths: distinct, follows from slen facts
					}
					// same constant length: bytewise ground extensionality
					var diffs []string
					for k := int64(0); k < li; k++ {
						diffs = append(diffs, fmt.Sprintf("(not (= (select (sarr %s) %d) (select (sarr %s) %d)))", ids[i].s, k, ids[j].s, k))
					}
					fmt.Fprintf(&b, "(assert (or (= %s %s) %s))\n", ids[i].s, ids[j].s, strings.Join(diffs, " "))
					continue
				}
				if oki != okj {
					// one constant length: the other either has a different length or differs in one of those bytes
					l, a, c := li, ids[i].s, ids[j].s
					if okj {
						l, a, c = lj, ids[j].s, ids[i].s
					}
					var diffs []string
					for k := int64(0); k < l; k++ {
						diffs = append(diffs, fmt.Sprintf("(not (= (select (sarr %s) %d) (select (sarr %s) %d)))", a, k, c, k))
					}
					fmt.Fprintf(&b, "(assert (or (= %s %s) (not (= (slen %s) %d)) %s))\n", a, c, c, l, strings.Join(diffs, " "))
					continue
				}
				d := fmt.Sprintf("sd!%d!%d", i, j)
				fmt.Fprintf(&b, "(declare-const %s Int)\n", d)
				fmt.Fprintf(&b, "(assert (or (= %s %s) (not (= (slen %s) (slen %s))) (and (<= 0 %s) (< %s (slen %s)) (not (= (select (sarr %s) %s) (select (sarr %s) %s))))))\n",
					ids[i].s, ids[j].s, ids[i].s, ids[j].s, d, d, ids[i].s, ids[i].s, d, ids[j].s, d)
			}
		}
	}
	fmt.Fprintf(&b, "(assert (not %s))\n(check-sat)\n", o.goal.s)
	if withModel {
		b.WriteString("(get-model)\n")
	}
	return b.String()
}

func stripPattern(ax string) string {
	// cvc5 accepts :pattern too; keep as is
	return ax
}

type solveResult struct {
	status string // unsat sat unknown timeout error
	solver string
	secs   float64
	out    string
}

var solverSem = make(chan struct{}, 16)

func runSolver(ctx context.Context, s solverSpec, file string, timeoutS int) solveResult {
	solverSem <- struct{}{}
	defer func() { <-solverSem }()
	if ctx.Err() != nil {
		return solveResult{status: "cancelled", solver: s.name}
	}
	t0 := time.Now()
	cctx, cancel := context.WithTimeout(ctx, time.Duration(timeoutS+2)*time.Second)
	defer cancel()
	cmd := exec.CommandContext(cctx, s.bin, s.args(timeoutS, file)...)
	var out bytes.Buffer
	cmd.Stdout = &out
	cmd.Stderr = &out
	_ = cmd.Run()
	secs := time.Since(t0).Seconds()
	text := out.String()
	first := strings.TrimSpace(strings.SplitN(text, "\n", 2)[0])
	st := "error"
	switch {
	case first == "unsat":
		st = "unsat"
	case first == "sat":
		st = "sat"
	case first == "unknown":
		st = "unknown"
	case strings.Contains(first, "timeout") || cctx.Err() != nil:
		st = "timeout"
	}
	return solveResult{status: st, solver: s.name, secs: secs, out: text}
}

// solve races the portfolio on one obligation.
func (e *Engine) solve(o *Oblig, dir string, idx int, timeoutS int, crossCheck bool) {
	t0 := time.Now()
	fileL := filepath.Join(dir, fmt.Sprintf("o%05d_l.smt2", idx))
	textL := e.emit(o, true, false)
	o.smtBytes = len(textL)
	if err := os.WriteFile(fileL, []byte(textL), 0o644); err != nil {
		o.status = "error"
		o.output = err.Error()
		return
	}
	// fast path: newest z3 alone, short budget
	fast := 3
	if timeoutS < fast {
		fast = timeoutS
	}
	var r solveResult
	if o.fastTried && !e.phaseFast && !fastOnly {
		r = solveResult{status: "unknown", solver: solvers[0].name} // phase 2: the fast path already ran in phase 1
	} else {
		r = runSolver(context.Background(), solvers[0], fileL, fast)
		o.fastTried = true
	}
	if r.status == "unsat" && !crossCheck {
		o.status, o.solver, o.secs = "unsat", r.solver, time.Since(t0).Seconds()
		return
	}
	if fastOnly || e.phaseFast {
		// sweep mode / first phase of solveAll: one solver, one short run
		o.status, o.solver, o.secs = r.status, r.solver, time.Since(t0).Seconds()
		return
	}
	if o.kind == "cover" {
		// vacuity probes: sat = fine, unsat = contradictory assumptions, anything else = undecided (not an error)
		o.status, o.solver, o.secs = r.status, r.solver, time.Since(t0).Seconds()
		return
	}
	// race everything
	fileQ := filepath.Join(dir, fmt.Sprintf("o%05d_q.smt2", idx))
	_ = os.WriteFile(fileQ, []byte(e.emit(o, false, false)), 0o644)
	ctx, cancel := context.WithCancel(context.Background())
	defer cancel()
	ch := make(chan solveResult, len(solvers)+12)
	for _, s := range solvers {
		s := s
		go func() {
			f := fileL
			if !s.lambda {
				f = fileQ
			}
			ch <- runSolver(ctx, s, f, timeoutS)
		}()
	}
	// slim variants: only the facts within two hops of the goal.  Fewer assumptions: `unsat` is as good as on the
	// full condition, any other answer is ignored.
	nRace := len(solvers)
	if !crossCheck && len(textL) > 60000 {
		for _, vr := range [][2]int{{2, 0}, {2, 1}, {2, 2}, {0, 1}, {0, 2}} {
			hops, lvl := vr[0], vr[1]
			fileS := filepath.Join(dir, fmt.Sprintf("o%05d_s%d%d.smt2", idx, hops, lvl))
			fileSQ := filepath.Join(dir, fmt.Sprintf("o%05d_sq%d%d.smt2", idx, hops, lvl))
			_ = os.WriteFile(fileS, []byte(e.emit(o, true, false, hops, lvl)), 0o644)
			_ = os.WriteFile(fileSQ, []byte(e.emit(o, false, false, hops, lvl)), 0o644)
			for _, s := range solvers {
				if strings.HasPrefix(s.name, "z3-4") {
					continue
				}
				s := s
				nRace++
				go func() {
					f := fileS
					if !s.lambda {
						f = fileSQ
					}
					rr := runSolver(ctx, s, f, timeoutS)
					if rr.status != "unsat" {
						rr.status = "unknown"
					} else {
						rr.solver += fmt.Sprintf("/slim%d%d", hops, lvl)
					}
					ch <- rr
				}()
			}
		}
	}
	var results []solveResult
	final := solveResult{status: "unknown"}
	for i := 0; i < nRace; i++ {
		rr := <-ch
		results = append(results, rr)
		if crossCheck {
			continue
		}
		if rr.status == "unsat" || rr.status == "sat" {
			final = rr
			cancel()
			break
		}
	}
	if crossCheck {
		// all must agree where they answer
		var sawUnsat, sawSat bool
		for _, rr := range results {
			if rr.status == "unsat" {
				sawUnsat = true
				final = rr
			}
			if rr.status == "sat" {
				sawSat = true
			}
		}
		if sawUnsat && sawSat {
			final = solveResult{status: "error", solver: "portfolio", out: "solvers disagree (sat vs unsat)"}
		} else if sawSat && !sawUnsat {
			for _, rr := range results {
				if rr.status == "sat" {
					final = rr
				}
			}
		}
		n := 0
		for _, rr := range results {
			if rr.status == "unsat" {
				n++
			}
		}
		if n > 1 {
			final.solver = fmt.Sprintf("%s(+%d agree)", final.solver, n-1)
		}
	}
	if final.status == "unknown" {
		// summarise
		var parts []string
		for _, rr := range results {
			parts = append(parts, rr.solver+":"+rr.status)
		}
		final.out = strings.Join(parts, " ")
		final.solver = "portfolio"
		allTO := true
		for _, rr := range results {
			if rr.status != "timeout" {
				allTO = false
			}
		}
		if allTO {
			final.status = "timeout"
		}
	}
	o.status, o.solver, o.secs = final.status, final.solver, time.Since(t0).Seconds()
	if final.status != "unsat" {
		o.output = truncate(final.out, 2000)
	}
	if final.status == "sat" && o.kind != "cover" {
		// fetch a model from z3 (lambda flavour)
		fileM := filepath.Join(dir, fmt.Sprintf("o%05d_m.smt2", idx))
		_ = os.WriteFile(fileM, []byte(e.emit(o, true, true)), 0o644)
		mr := runSolver(context.Background(), solvers[0], fileM, timeoutS)
		if mr.status == "sat" {
			o.model = mr.out
		}
	}
}

func truncate(s string, n int) string {
	if len(s) > n {
		return s[:n] + "…"
	}
	return s
}

// solveAll discharges obligations in parallel.
func solveAll(results []*FuncResult, dir string, timeoutS int, workers int, crossCheck bool, knownNames map[string]bool) {
	type job struct {
		e   *Engine
		o   *Oblig
		idx int
	}
	var jobs []job
	idx := 0
	for _, r := range results {
		for _, o := range r.obligs {
			jobs = append(jobs, job{r.eng, o, idx})
			idx++
		}
	}
	run := func(js []job, workers int, fast bool) {
		var wg sync.WaitGroup
		ch := make(chan job)
		for w := 0; w < workers; w++ {
			wg.Add(1)
			go func() {
				defer wg.Done()
				for j := range ch {
					to := timeoutS
					if knownNames[j.o.name] && to > 6 {
						to = 6 // a listed finding is expected to fail: do not spend the full budget on it
					}
					j.e.solve(j.o, dir, j.idx, to, crossCheck && j.o.kind != "cover")
				}
			}()
		}
		for _, j := range js {
			ch <- j
		}
		close(ch)
		wg.Wait()
	}
	if crossCheck {
		run(jobs, workers, false)
	} else {
		// phase 1: the fast path (newest z3 alone, 3 s) for everything, one solver process per core;
		// phase 2: the full race (three solvers + slim variants, up to 13 processes each) only for what is left,
		// a few at a time so that the racing solvers are not starved of CPU
		for _, j := range jobs {
			j.e.phaseFast = true
		}
		run(jobs, workers, true)
		var rest []job
		for _, j := range jobs {
			j.e.phaseFast = false
			if j.o.kind != "cover" && j.o.status != "unsat" {
				rest = append(rest, j)
			}
		}
		w2 := workers / 5
		if w2 < 2 {
			w2 = 2
		}
		run(rest, w2, false)
	}
	// second chance, one at a time (no CPU contention), for anything that timed out or came back unknown
	for _, j := range jobs {
		if j.o.kind == "cover" || j.o.status == "unsat" || j.o.status == "sat" || knownNames[j.o.name] {
			continue
		}
		first := j.o.status
		j.e.solve(j.o, dir, j.idx, timeoutS*2, false)
		if j.o.status == "unsat" {
			j.o.solver += " (retry after " + first + ")"
		}
	}
}

// strIDsAt: string identities that existed when the obligation was created (global list; scoped ones are attached).
func (e *Engine) strIDsAt(o *Oblig) []T { return e.strIDs }

// ubiquitous symbols connect everything; they do not make a fact relevant on their own.
func ubiquitous(x string) bool {
	for _, p := range []string{"pc!", "alloc", "Mem", "H_", "H!", "MapP", "MapV", "MapN", "g_MapP", "g_MapV", "g_MapN", "c!", "slen", "sarr", "select", "store", "and", "or", "not", "=>", "=", "<=", "<", "+", "-", "*", "ite", "forall", "exists", "Int", "div", "mod", "true", "false", "as", "const", "Array", "lambda", "let", "!", ":pattern", "str_of", "sconcat", "dig", "blktype", "maptype", "elty"} {
		if x == p || (strings.HasSuffix(p, "!") || p == "alloc" || p == "Mem" || p == "H_" || strings.HasPrefix(p, "Map") || strings.HasPrefix(p, "g_Map")) && strings.HasPrefix(x, p) {
			return true
		}
	}
	return false
}

var boundVarRe = regexp.MustCompile(`\(([A-Za-z_][^\s()]*) Int\)`)

// boundVars: names bound by quantifiers / lambdas in an SMT text.
func boundVars(text string) map[string]bool {
	out := map[string]bool{}
	if !strings.Contains(text, "forall") && !strings.Contains(text, "exists") && !strings.Contains(text, "lambda") {
		return out
	}
	for _, m := range boundVarRe.FindAllStringSubmatch(text, -1) {
		out[m[1]] = true
	}
	return out
}

package main

// Expression evaluation (program expressions and contract expressions share this translator).

import (
	"fmt"
	"go/ast"
	"go/constant"
	"go/token"
	"go/types"
	"math/big"
)

type unsupported struct{ msg string }

func (e *Engine) fail(n ast.Node, format string, args ...interface{}) {
	msg := fmt.Sprintf(format, args...)
	if n != nil {
		p := e.prog.fset.Position(n.Pos())
		msg = fmt.Sprintf("%s:%d: %s", relRepo(p.Filename), p.Line, msg)
	}
	panic(unsupported{msg})
}

func (e *Engine) typeOf(x ast.Expr) types.Type {
	if t := e.pkg.info.TypeOf(x); t != nil {
		return t
	}
	e.fail(x, "no type for expression %s", e.slug(x))
	return nil
}

func (e *Engine) constOf(x ast.Expr) constant.Value {
	if tv, ok := e.pkg.info.Types[x]; ok {
		return tv.Value
	}
	return nil
}

func (e *Engine) constValue(st *State, v constant.Value, t types.Type) Value {
	switch v.Kind() {
	case constant.Bool:
		if constant.BoolVal(v) {
			return BoolV{tTrue}
		}
		return BoolV{tFalse}
	case constant.String:
		return StrV{e.strLit(constant.StringVal(v))}
	case constant.Int:
		bi, ok := new(big.Int).SetString(v.ExactString(), 10)
		if !ok {
			return IntV{e.fresh("const", SInt)}
		}
		return IntV{IBig(bi)}
	case constant.Float:
		// floats are outside the subset; keep integral constants
		if constant.ToInt(v).Kind() == constant.Int {
			bi, _ := new(big.Int).SetString(constant.ToInt(v).ExactString(), 10)
			if bi != nil {
				return IntV{IBig(bi)}
			}
		}
		e.abstract("float constant")
		return IntV{e.fresh("float", SInt)}
	}
	return IntV{e.fresh("const", SInt)}
}

func (e *Engine) lookupVar(st *State, obj types.Object) (Value, bool) {
	for i := len(e.envStack) - 1; i >= 0; i-- {
		if v, ok := e.envStack[i][obj]; ok {
			return v, true
		}
	}
	if v, ok := st.vars[obj]; ok {
		return v, true
	}
	return nil, false
}

func (e *Engine) asInt(v Value, n ast.Node) T {
	switch x := v.(type) {
	case IntV:
		return x.t
	case RefV:
		return x.t
	case StrV:
		return x.t
	case BoolV:
		return B2I(x.t)
	}
	e.fail(n, "expected integer value, got %T", v)
	return T{}
}

func (e *Engine) asBool(v Value, n ast.Node) T {
	switch x := v.(type) {
	case BoolV:
		return x.t
	case IntV:
		return I2B(x.t)
	}
	e.fail(n, "expected boolean value, got %T", v)
	return T{}
}

func (e *Engine) deLoc(st *State, v Value, t types.Type) Value {
	if lv, ok := v.(LocV); ok {
		return e.loadAt(st, lv.addr, t)
	}
	return v
}

// eval evaluates x in st; may add obligations and update st (calls, allocations).
func (e *Engine) eval(st *State, x ast.Expr) Value {
	if e.pol != 0 {
		// polarity of the sub-formula being evaluated (goal-directed instantiation of quantifiers): kept through
		// parentheses, && and ||, flipped by !, unknown (0) below anything else
		keep := false
		switch n := x.(type) {
		case *ast.ParenExpr:
			keep = true
		case *ast.UnaryExpr:
			if n.Op == token.NOT {
				e.pol = -e.pol
				defer func() { e.pol = -e.pol }()
				keep = true
			}
		case *ast.BinaryExpr:
			keep = n.Op == token.LAND || n.Op == token.LOR
		case *ast.CallExpr:
			if id, ok := n.Fun.(*ast.Ident); ok && (id.Name == "forall" || id.Name == "exists") && e.isUniverseCall(n) {
				keep = true
			}
		}
		if !keep {
			save := e.pol
			e.pol = 0
			defer func() { e.pol = save }()
		}
	}
	if e.hoisted != nil {
		if v, ok := e.hoisted[x]; ok {
			return v
		}
	}
	// inside one contract clause, textually identical calls of program functions are evaluated once per state
	if e.specMode > 0 && e.quant == 0 {
		if call, ok := x.(*ast.CallExpr); ok && e.clauseMemo != nil && e.hoistable(call) && !e.isUniverseCall(call) {
			key := fmt.Sprintf("%p|%s", st, e.slug(call))
			if v, ok := e.clauseMemo[key]; ok {
				return v
			}
			v := e.evalCall(st, call)
			e.clauseMemo[key] = v
			return v
		}
	}
	if cv := e.constOf(x); cv != nil {
		return e.constValue(st, cv, e.typeOf(x))
	}
	switch n := x.(type) {
	case *ast.ParenExpr:
		return e.eval(st, n.X)
	case *ast.BasicLit:
		e.fail(n, "literal without constant value")
	case *ast.Ident:
		return e.evalIdent(st, n)
	case *ast.UnaryExpr:
		return e.evalUnary(st, n)
	case *ast.BinaryExpr:
		return e.evalBinary(st, n)
	case *ast.CallExpr:
		return e.evalCall(st, n)
	case *ast.StarExpr:
		p := e.eval(st, n.X)
		ref := e.asInt(p, n)
		e.oblige(st, "nil", e.slug(n), Ne(ref, I(0)), n.Pos(), nil)
		return e.loadAt(st, ref, e.typeOf(n))
	case *ast.SelectorExpr:
		return e.evalSelector(st, n)
	case *ast.IndexExpr:
		return e.evalIndex(st, n)
	case *ast.SliceExpr:
		return e.evalSliceExpr(st, n)
	case *ast.CompositeLit:
		return e.evalCompositeLit(st, n, false)
	case *ast.TypeAssertExpr:
		v, _ := e.evalTypeAssert(st, n, false)
		return v
	case *ast.FuncLit:
		return FuncV{lit: n, pkg: e.pkg}
	}
	e.fail(x, "unsupported expression %T: %s", x, e.slug(x))
	return nil
}

func (e *Engine) evalIdent(st *State, id *ast.Ident) Value {
	if id.Name == "_" {
		return nil
	}
	obj := e.pkg.info.Uses[id]
	if obj == nil {
		obj = e.pkg.info.Defs[id]
	}
	if obj == nil {
		e.fail(id, "unresolved identifier %s", id.Name)
	}
	switch o := obj.(type) {
	case *types.Nil:
		return e.zero(st, e.typeOf(id))
	case *types.Const:
		return e.constValue(st, o.Val(), o.Type())
	case *types.Var:
		if v, ok := e.lookupVar(st, o); ok {
			return e.deLoc(st, v, o.Type())
		}
		if o.Parent() == o.Pkg().Scope() || o.Pkg() != nil && o.Parent() != nil && o.Parent().Parent() == types.Universe {
			return e.globalVar(st, o)
		}
		e.fail(id, "variable %s has no value (declared outside the subset?)", id.Name)
	case *types.Func:
		return FuncV{fn: o}
	case *types.Builtin:
		e.fail(id, "builtin %s used as value", id.Name)
	}
	e.fail(id, "unsupported identifier kind %T", obj)
	return nil
}

// globalVar: package-level variables are symbolic constants when never assigned after initialisation,
// otherwise unknown at every read.
func (e *Engine) globalVar(st *State, o *types.Var) Value {
	if e.prog.globalsAssigned[o] {
		if !isErrorType(o.Type()) {
			// a package variable that the program assigns lives in a heap cell of its own: stable between reads,
			// forgotten wherever the heap is (calls with unknown effects, loop heads), writes are frame-checked
			e.noteAssumption("package variable " + o.Pkg().Name() + "." + o.Name() + " modelled as a heap cell (sequential semantics: no concurrent writer)")
			pl := e.globalPlace(st, o)
			return e.loadPlace(st, pl)
		}
	}
	if v, ok := e.globals[o]; ok {
		return v
	}
	save := st.pc
	st.pc = tTrue
	e.permDecl++
	nf := len(e.facts)
	saveAlloc := st.alloc
	if e.alloc0.s != "" {
		st.alloc = e.alloc0 // package-level objects exist before the function is entered
	}
	v := e.symbolic(st, "g_"+o.Pkg().Name()+"."+o.Name(), o.Type())
	st.alloc = saveAlloc
	e.permDecl--
	// facts about the global symbol are permanent too
	for _, f := range e.facts[nf:] {
		e.gfacts = append(e.gfacts, f)
	}
	e.facts = e.facts[:nf]
	st.pc = save
	if iv, ok := v.(IfaceV); ok && isErrorType(o.Type()) {
		// sentinel errors are non-nil and pairwise distinct
		e.assumeGlobal(Ne(iv.ref, I(0)), "sentinel error is non-nil")
		for _, oo := range e.globalOrder {
			if ow, ok := e.globals[oo].(IfaceV); ok && isErrorType(oo.Type()) {
				e.assumeGlobal(Ne(iv.ref, ow.ref), "distinct sentinel errors")
			}
		}
		e.noteAssumption("package-level error variables are non-nil, pairwise distinct and never reassigned")
	}
	if cv, ok := e.prog.globalConstInit[o]; ok {
		// never assigned after its declaration: the variable still holds its constant initialiser
		cval := e.constValue(st, cv, o.Type())
		switch x := v.(type) {
		case IntV:
			if c, ok := cval.(IntV); ok && cv.Kind() == constant.Int {
				e.assumeGlobal(Eq(x.t, c.t), "package variable holds its constant initialiser")
			}
		case BoolV:
			if c, ok := cval.(BoolV); ok {
				e.assumeGlobal(Eq(B2I(x.t), B2I(c.t)), "package variable holds its constant initialiser")
			}
		}
	}
	e.noteAssumption("package variables never assigned outside their declaration or their package's init() are constants")
	e.globals[o] = v
	e.globalOrder = append(e.globalOrder, o)
	return v
}

// globalPlace: the heap cell(s) of an assigned package variable (allocated before the function is entered).
func (e *Engine) globalPlace(st *State, o *types.Var) place {
	a, ok := e.globalAddrs[o]
	if !ok {
		e.permDecl++
		a = e.fresh("ga_"+o.Pkg().Name()+"_"+o.Name(), SInt)
		e.permDecl--
		n := int64(e.cells(o.Type()))
		base := e.alloc0
		if base.s == "" {
			base = st.alloc
		}
		e.assumeGlobal(And(Le(I(1), a), Le(Add(a, I(n)), base)), "package variable cell exists before entry")
		for _, oo := range e.globalAddrOrder {
			b := e.globalAddrs[oo]
			m := int64(e.cells(oo.Type()))
			e.assumeGlobal(Or(Le(Add(a, I(n)), b), Le(Add(b, I(m)), a)), "distinct package variables occupy distinct cells")
		}
		if e.globalAddrs == nil {
			e.globalAddrs = map[*types.Var]T{}
		}
		e.globalAddrs[o] = a
		e.globalAddrOrder = append(e.globalAddrOrder, o)
	}
	key := ""
	switch under(o.Type()).(type) {
	case *types.Basic, *types.Pointer, *types.Map, *types.Chan, *types.Signature, *types.Slice, *types.Interface:
		key = "G_" + sanitize(o.Pkg().Name()+"."+o.Name())
	}
	return place{addr: a, isAddr: true, typ: o.Type(), key: key}
}

func isErrorType(t types.Type) bool {
	return types.Identical(t, types.Universe.Lookup("error").Type())
}

func (e *Engine) noteAssumption(s string) { e.assumptions[s] = true }

func (e *Engine) evalUnary(st *State, n *ast.UnaryExpr) Value {
	switch n.Op {
	case token.NOT:
		return BoolV{Not(e.asBool(e.eval(st, n.X), n))}
	case token.SUB:
		v := e.asInt(e.eval(st, n.X), n)
		return IntV{e.wrap(Neg(v), e.typeOf(n))}
	case token.ADD:
		return e.eval(st, n.X)
	case token.XOR:
		v := e.asInt(e.eval(st, n.X), n)
		bits, signed, ok := intRange(e.typeOf(n))
		if ok && bits > 0 {
			if signed {
				return IntV{Sub(Neg(v), I(1))}
			}
			return IntV{Sub(IBig(new(big.Int).Sub(pow2(bits), bigOne)), v)}
		}
		return IntV{Sub(Neg(v), I(1))}
	case token.AND:
		if cl, ok := n.X.(*ast.CompositeLit); ok {
			return e.evalCompositeLit(st, cl, true)
		}
		if p, ok := n.X.(*ast.ParenExpr); ok {
			if cl, ok := p.X.(*ast.CompositeLit); ok {
				return e.evalCompositeLit(st, cl, true)
			}
		}
		pl := e.placeOf(st, n.X)
		if pl.isAddr && pl.key != "" {
			switch under(pl.typ).(type) {
			case *types.Struct, *types.Array:
			default:
				e.fail(n, "address of a scalar struct field (%s) is outside the subset (typed heaps)", e.slug(n.X))
			}
		}
		if pl.isAddr {
			return RefV{pl.addr}
		}
		if av, ok := pl.val.(ArrV); ok {
			return RefV{av.blk}
		}
		e.fail(n, "cannot take address of %s", e.slug(n.X))
		return nil
	case token.ARROW:
		e.fail(n, "channel receive is outside the subset")
	}
	e.fail(n, "unsupported unary operator %s", n.Op)
	return nil
}

// wrap reduces a mathematical result into the range of typ (Go wrap-around); identity in spec mode.
func (e *Engine) wrap(t T, typ types.Type) T {
	if e.specMode > 0 {
		return t
	}
	bits, signed, ok := intRange(typ)
	if !ok || bits == 0 {
		return t
	}
	M := pow2(bits)
	if v, isc := constVal(t); isc {
		r := new(big.Int).Mod(v, M)
		if signed && r.Cmp(pow2(bits-1)) >= 0 {
			r.Sub(r, M)
		}
		return IBig(r)
	}
	if !signed {
		return Mod(t, IBig(M))
	}
	h := IBig(pow2(bits - 1))
	return Sub(Mod(Add(t, h), IBig(M)), h)
}

// wrap1 handles results known to be off by at most one modulus (add/sub).
func (e *Engine) wrap1(t T, typ types.Type) T {
	if e.specMode > 0 {
		return t
	}
	bits, signed, ok := intRange(typ)
	if !ok || bits == 0 {
		return t
	}
	if _, isc := constVal(t); isc {
		return e.wrap(t, typ)
	}
	M := IBig(pow2(bits))
	t = e.name("ar", t)
	if !signed {
		max := IBig(new(big.Int).Sub(pow2(bits), bigOne))
		return Ite(Gt(t, max), Sub(t, M), Ite(Lt(t, I(0)), Add(t, M), t))
	}
	max := IBig(new(big.Int).Sub(pow2(bits-1), bigOne))
	min := IBig(new(big.Int).Neg(pow2(bits - 1)))
	return Ite(Gt(t, max), Sub(t, M), Ite(Lt(t, min), Add(t, M), t))
}

// bit-run decomposition of a constant mask: list of [lo,hi) runs of one bits.
func maskRuns(m *big.Int) [][2]uint {
	var runs [][2]uint
	n := uint(m.BitLen())
	var i uint
	for i < n {
		if m.Bit(int(i)) == 1 {
			j := i
			for j < n && m.Bit(int(j)) == 1 {
				j++
			}
			runs = append(runs, [2]uint{i, j})
			i = j
		} else {
			i++
		}
	}
	return runs
}

// andConst computes x & m for a non-negative constant m and a non-negative x.
func andConst(x T, m *big.Int) T {
	res := I(0)
	for _, r := range maskRuns(m) {
		part := Mod(Div(x, IBig(pow2(r[0]))), IBig(pow2(r[1]-r[0])))
		res = Add(res, Mul(part, IBig(pow2(r[0]))))
	}
	return res
}

func (e *Engine) evalBinary(st *State, n *ast.BinaryExpr) Value {
	switch n.Op {
	case token.LAND, token.LOR:
		l := e.asBool(e.eval(st, n.X), n.X)
		// obligations of the right operand are guarded by the left one
		save := st.pc
		if n.Op == token.LAND {
			st.pc = e.nameQ("pc", And(st.pc, l)) // not named under a quantifier: l may mention the bound variables
		} else {
			st.pc = e.nameQ("pc", And(st.pc, Not(l)))
		}
		if st.pc.s != save.s {
			e.exprPcParent[st.pc.s] = save.s // a refinement inside one expression, not a program path of its own
		}
		hsave := st.clone()
		mem, al := st.Mem, st.alloc
		r := e.asBool(e.eval(st, n.Y), n.Y)
		// restore path condition but keep obligations' strengthening out of it
		st.pc = save
		if heapsDiffer(st, hsave) || st.Mem.s != mem.s || st.alloc.s != al.s {
			g := l
			if n.Op == token.LOR {
				g = Not(l)
			}
			// the right operand ran only under g: merge its effects conditionally
			rs := st.clone()
			rs.pc = e.name("pc", And(save, g))
			hsave.pc = e.name("pc", And(save, Not(g)))
			m := e.merge([]*State{rs, hsave})
			if m != nil {
				st.H, st.epoch, st.Mem, st.alloc, st.ghost = m.H, m.epoch, m.Mem, m.alloc, m.ghost
			}
		}
		if n.Op == token.LAND {
			return BoolV{And(l, r)}
		}
		return BoolV{Or(l, r)}
	}
	lt := e.typeOf(n.X)
	if (n.Op == token.EQL || n.Op == token.NEQ) && (e.isNilExpr(n.X) || e.isNilExpr(n.Y)) {
		other := n.X
		if e.isNilExpr(n.X) {
			other = n.Y
		}
		isNil := e.isNilValue(e.eval(st, other), n)
		if n.Op == token.NEQ {
			return BoolV{Not(isNil)}
		}
		return BoolV{isNil}
	}
	lv := e.eval(st, n.X)
	rv := e.eval(st, n.Y)
	switch n.Op {
	case token.EQL, token.NEQ:
		eq := e.valuesEqual(st, lv, rv, lt, n)
		if n.Op == token.NEQ {
			return BoolV{Not(eq)}
		}
		return BoolV{eq}
	}
	// string concatenation / comparison
	if _, ok := lv.(StrV); ok {
		switch n.Op {
		case token.ADD:
			return e.strConcat(st, lv.(StrV), rv.(StrV))
		case token.LSS, token.LEQ, token.GTR, token.GEQ:
			e.abstract("string ordering")
			return BoolV{e.fresh("strcmp", SBool)}
		}
	}
	a := e.asInt(lv, n.X)
	b := e.asInt(rv, n.Y)
	typ := e.typeOf(n)
	switch n.Op {
	case token.LSS:
		return BoolV{Lt(a, b)}
	case token.LEQ:
		return BoolV{Le(a, b)}
	case token.GTR:
		return BoolV{Gt(a, b)}
	case token.GEQ:
		return BoolV{Ge(a, b)}
	}
	return IntV{e.arith(st, n.Op, a, b, typ, e.typeOf(n.Y), n)}
}

func (e *Engine) isNilValue(v Value, n ast.Node) T {
	switch x := v.(type) {
	case SliceV:
		return Eq(x.blk, I(0))
	case IfaceV:
		return Eq(x.ref, I(0))
	case RefV:
		return Eq(x.t, I(0))
	case FuncV:
		return tFalse
	}
	e.fail(n, "comparison of %T with nil", v)
	return T{}
}

func (e *Engine) arith(st *State, op token.Token, a, b T, typ, rtyp types.Type, n ast.Node) T {
	bits, signed, _ := intRange(typ)
	switch op {
	case token.ADD:
		return e.wrap1(Add(a, b), typ)
	case token.SUB:
		return e.wrap1(Sub(a, b), typ)
	case token.MUL:
		return e.wrap(Mul(a, b), typ)
	case token.QUO, token.REM:
		e.oblige(st, "div", e.slug(n), Ne(b, I(0)), n.Pos(), nil)
		if !signed && bits > 0 || e.specMode > 0 && false {
			if op == token.QUO {
				return Div(a, b)
			}
			return Mod(a, b)
		}
		// Go truncated division for signed operands
		if bv, ok := constVal(b); ok && bv.Sign() > 0 {
			q := Ite(Ge(a, I(0)), Div(a, b), Neg(Div(Neg(a), b)))
			if op == token.QUO {
				return e.wrap(q, typ)
			}
			return Sub(a, Mul(b, q))
		}
		a = e.name("dv", a)
		b = e.name("dv", b)
		absA := Ite(Ge(a, I(0)), a, Neg(a))
		absB := Ite(Ge(b, I(0)), b, Neg(b))
		qa := Div(absA, absB)
		q := Ite(Eq(Ge(a, I(0)), Ge(b, I(0))), qa, Neg(qa))
		if op == token.QUO {
			return e.wrap(q, typ)
		}
		return Sub(a, Mul(b, q))
	case token.SHL:
		if bv, ok := constInt(b); ok && bv >= 0 && bv < 256 {
			return e.wrap(Mul(a, IBig(pow2(uint(bv)))), typ)
		}
		// symbolic shift count: 2^b as an uninterpreted power with small-case expansion
		return e.wrap(Mul(a, e.pow2term(st, b)), typ)
	case token.SHR:
		if bv, ok := constInt(b); ok && bv >= 0 && bv < 256 {
			return Div(a, IBig(pow2(uint(bv))))
		}
		return Div(a, e.pow2term(st, b))
	case token.AND, token.OR, token.XOR, token.AND_NOT:
		av, aok := constVal(a)
		bv, bok := constVal(b)
		if aok && bok {
			r := new(big.Int)
			switch op {
			case token.AND:
				r.And(av, bv)
			case token.OR:
				r.Or(av, bv)
			case token.XOR:
				r.Xor(av, bv)
			case token.AND_NOT:
				r.AndNot(av, bv)
			}
			return IBig(r)
		}
		if aok && !bok && op != token.AND_NOT {
			a, b = b, a
			av, bv, aok, bok = bv, av, bok, aok
		}
		if bok && bv.Sign() >= 0 && !signed {
			and := e.name("and", andConst(a, bv))
			switch op {
			case token.AND:
				return and
			case token.OR:
				return Sub(Add(a, IBig(bv)), and)
			case token.XOR:
				return Sub(Add(a, IBig(bv)), Mul(I(2), and))
			case token.AND_NOT:
				return Sub(a, and)
			}
		}
		if bok && bv.Sign() >= 0 && signed && op == token.AND {
			// signed x & nonneg const: valid when x >= 0; otherwise use two's complement image
			M := IBig(pow2(bits))
			ux := Ite(Ge(a, I(0)), a, Add(a, M))
			return e.name("and", andConst(e.name("ux", ux), bv))
		}
		if bits == 8 && !signed || (bits > 0 && bits <= 16 && !signed) {
			return e.bitwiseSmall(op, a, b, bits)
		}
		e.abstract("bitwise operation on two symbolic operands")
		r := e.fresh("bitop", SInt)
		e.assume(st, rangeFact(r, typ), "type range")
		return r
	}
	e.fail(n, "unsupported binary operator %s", op)
	return T{}
}

// bitwiseSmall expands a bitwise operation on two small unsigned operands bit by bit.
func (e *Engine) bitwiseSmall(op token.Token, a, b T, bits uint) T {
	a = e.name("ba", a)
	b = e.name("bb", b)
	res := I(0)
	for i := uint(0); i < bits; i++ {
		ab := Mod(Div(a, IBig(pow2(i))), I(2))
		bb := Mod(Div(b, IBig(pow2(i))), I(2))
		var bit T
		switch op {
		case token.AND:
			bit = Ite(And(Eq(ab, I(1)), Eq(bb, I(1))), I(1), I(0))
		case token.OR:
			bit = Ite(Or(Eq(ab, I(1)), Eq(bb, I(1))), I(1), I(0))
		case token.XOR:
			bit = Ite(Ne(ab, bb), I(1), I(0))
		case token.AND_NOT:
			bit = Ite(And(Eq(ab, I(1)), Eq(bb, I(0))), I(1), I(0))
		}
		res = Add(res, Mul(bit, IBig(pow2(i))))
	}
	return e.name("bw", res)
}

func (e *Engine) pow2term(st *State, b T) T {
	// ite chain for 0..64
	b = e.name("sh", b)
	r := IBig(pow2(64))
	for i := 63; i >= 0; i-- {
		r = Ite(Eq(b, I(int64(i))), IBig(pow2(uint(i))), r)
	}
	return e.name("p2", r)
}

func (e *Engine) valuesEqual(st *State, a, b Value, t types.Type, n ast.Node) T {
	switch x := a.(type) {
	case IntV:
		return Eq(x.t, e.asInt(b, n))
	case BoolV:
		return Eq(x.t, e.asBool(b, n))
	case RefV:
		return Eq(x.t, e.asInt(b, n))
	case StrV:
		return Eq(x.t, e.asInt(b, n))
	case SliceV: // only comparison with nil is legal Go
		return Eq(x.blk, I(0))
	case IfaceV:
		switch y := b.(type) {
		case IfaceV:
			return Eq(x.ref, y.ref)
		case RefV:
			return Eq(x.ref, y.t)
		}
	case ArrV:
		if y, ok := b.(ArrV); ok {
			n := int64(0)
			if at, ok := under(t).(*types.Array); ok {
				n = at.Len()
			}
			return e.arrayEq(st, Sel(st.Mem, x.blk), I(0), Sel(st.Mem, y.blk), I(0), I(n))
		}
	case StructV:
		if y, ok := b.(StructV); ok {
			var cs []T
			for i := range x.f {
				cs = append(cs, e.valuesEqual(st, x.f[i], y.f[i], x.typ.Field(i).Type(), n))
			}
			return And(cs...)
		}
	case nil:
		return tTrue
	}
	e.fail(n, "unsupported comparison of %T and %T", a, b)
	return T{}
}

// arrayEq: a[ao+i] == b[bo+i] for all 0 <= i < n.
func (e *Engine) arrayEq(st *State, a, ao, b, bo, n T) T {
	if nv, ok := constInt(n); ok && nv <= 128 {
		var cs []T
		for i := int64(0); i < nv; i++ {
			cs = append(cs, Eq(Sel(a, Add(ao, I(i))), Sel(b, Add(bo, I(i)))))
		}
		return And(cs...)
	}
	e.nsym++
	v := fmt.Sprintf("k!%d", e.nsym)
	k := T{v, SInt}
	return Forall([]string{v}, Implies(And(Le(I(0), k), Lt(k, n)), Eq(Sel(a, Add(ao, k)), Sel(b, Add(bo, k)))))
}

func (e *Engine) strConcat(st *State, a, b StrV) Value {
	e.declareUF("sconcat", "(declare-fun sconcat (Int Int) Int)")
	r := app(SInt, "sconcat", a.t, b.t)
	if e.quant == 0 {
		r = e.nameAlways("cat", r)
		e.strIDs = append(e.strIDs, r)
		e.assume(st, Eq(e.slen(r), Add(e.slen(a.t), e.slen(b.t))), "string concatenation length")
		e.nsym++
		v := fmt.Sprintf("k!%d", e.nsym)
		k := T{v, SInt}
		e.assume(st, Forall([]string{v}, And(
			Implies(And(Le(I(0), k), Lt(k, e.slen(a.t))), Eq(e.sbyte(r, k), e.sbyte(a.t, k))),
			Implies(And(Le(e.slen(a.t), k), Lt(k, e.slen(r))), Eq(e.sbyte(r, k), e.sbyte(b.t, Sub(k, e.slen(a.t))))))), "string concatenation bytes")
		e.numeralConcat(st, r, a.t, b.t)
	}
	return StrV{r}
}

// ---------------------------------------------------------------------------------------
// Selectors, addresses.

// place is either an address in the heap or a detached value.
type place struct {
	addr   T
	isAddr bool
	val    Value
	typ    types.Type
	key    string // typed-heap key of the cell(s) at addr ("" = by scalar type)
}

func (e *Engine) loadPlace(st *State, p place) Value {
	if !p.isAddr {
		return p.val
	}
	if p.key == "" {
		return e.loadAt(st, p.addr, p.typ)
	}
	return e.loadAtK(st, p.addr, p.typ, p.key)
}

func (e *Engine) storePlace(st *State, p place, v Value) {
	if p.key == "" {
		e.storeAt(st, p.addr, p.typ, v)
		return
	}
	e.storeAtK(st, p.addr, p.typ, v, p.key)
}

func (e *Engine) stepField(st *State, p place, idx int, n ast.Node) place {
	t := p.typ
	if ptr, ok := under(t).(*types.Pointer); ok {
		var ref T
		ref = e.asInt(e.loadPlace(st, p), n)
		e.oblige(st, "nil", e.slug(n), Ne(ref, I(0)), n.Pos(), nil)
		p = place{addr: ref, isAddr: true, typ: ptr.Elem()}
		t = ptr.Elem()
	}
	stt, ok := under(t).(*types.Struct)
	if !ok {
		e.fail(n, "field selection on non-struct %s", t)
	}
	ft := stt.Field(idx).Type()
	if p.isAddr {
		np := place{addr: Add(p.addr, I(int64(e.fieldOffset(stt, idx)))), isAddr: true, typ: ft, key: e.structKey(stt, t) + "." + stt.Field(idx).Name()}
		if _, isArr := under(ft).(*types.Array); isArr && e.quant == 0 {
			// an array field's block is owned by exactly this (struct type, field): blocks of different fields differ
			e.declareUF("blktype", "(declare-fun blktype (Int) Int)")
			id, ok := e.typeIDs["blk:"+np.key]
			if !ok {
				id = len(e.typeIDs) + 1
				e.typeIDs["blk:"+np.key] = id
			}
			e.assume(st, Eq(app(SInt, "blktype", np.addr), I(int64(id))), "typed memory: array field block belongs to its field")
		}
		return np
	}
	sv, ok := p.val.(StructV)
	if !ok {
		e.fail(n, "field selection on %T", p.val)
	}
	return place{val: sv.f[idx], typ: ft}
}

// placeOf resolves x to a place without loading aggregates when avoidable.
func (e *Engine) placeOf(st *State, x ast.Expr) place {
	switch n := x.(type) {
	case *ast.ParenExpr:
		return e.placeOf(st, n.X)
	case *ast.Ident:
		obj := e.pkg.info.Uses[n]
		if obj == nil {
			obj = e.pkg.info.Defs[n]
		}
		if vo, ok := obj.(*types.Var); ok {
			if v, ok := e.lookupVar(st, vo); ok {
				if lv, ok := v.(LocV); ok {
					return place{addr: lv.addr, isAddr: true, typ: vo.Type()}
				}
				return place{val: v, typ: vo.Type()}
			}
			if vo.Pkg() != nil && vo.Parent() == vo.Pkg().Scope() && e.prog.globalsAssigned[vo] && !isErrorType(vo.Type()) {
				return e.globalPlace(st, vo)
			}
		}
	case *ast.StarExpr:
		ref := e.asInt(e.eval(st, n.X), n)
		e.oblige(st, "nil", e.slug(n), Ne(ref, I(0)), n.Pos(), nil)
		return place{addr: ref, isAddr: true, typ: e.typeOf(n)}
	case *ast.SelectorExpr:
		sel := e.pkg.info.Selections[n]
		if sel != nil && sel.Kind() == types.FieldVal {
			p := e.placeOf(st, n.X)
			for _, idx := range sel.Index() {
				p = e.stepField(st, p, idx, n)
			}
			return p
		}
	case *ast.IndexExpr:
		bt := e.typeOf(n.X)
		switch u := under(bt).(type) {
		case *types.Slice:
			if !isScalarElem(u.Elem()) {
				sv := e.eval(st, n.X).(SliceV)
				i := e.asInt(e.eval(st, n.Index), n.Index)
				e.oblige(st, "bounds", e.slug(n), And(Le(I(0), i), Lt(i, sv.ln)), n.Pos(), nil)
				ref := e.elemRef(st, sv, i, u.Elem())
				return place{addr: ref, isAddr: true, typ: u.Elem()}
			}
		}
	}
	return place{val: e.eval(st, x), typ: e.typeOf(x)}
}

// elemRef returns the address of the boxed element i of a slice with aggregate elements.
func (e *Engine) elemRef(st *State, sv SliceV, i T, elem types.Type) T {
	r := Sel(Sel(st.Mem, sv.blk), Add(sv.off, i))
	if e.quant == 0 {
		r = e.name("elt", r)
		e.assume(st, And(Gt(r, I(0)), Le(Add(r, I(int64(e.cells(elem)))), st.alloc)), "typed memory: boxed slice element is allocated")
		e.oldStaysOld(st, sv.blk, true, r)
	}
	return r
}

func (e *Engine) addrOf(st *State, x ast.Expr) (T, bool) {
	p := e.placeOf(st, x)
	if p.isAddr {
		return p.addr, true
	}
	// arrays are identified by their block
	if av, ok := p.val.(ArrV); ok {
		return av.blk, true
	}
	return T{}, false
}

func (e *Engine) evalSelector(st *State, n *ast.SelectorExpr) Value {
	sel := e.pkg.info.Selections[n]
	if sel == nil {
		// qualified identifier pkg.Name
		obj := e.pkg.info.Uses[n.Sel]
		switch o := obj.(type) {
		case *types.Const:
			return e.constValue(st, o.Val(), o.Type())
		case *types.Var:
			return e.globalVar(st, o)
		case *types.Func:
			return FuncV{fn: o}
		}
		e.fail(n, "unsupported qualified identifier %s", e.slug(n))
	}
	switch sel.Kind() {
	case types.FieldVal:
		p := e.placeOf(st, n)
		return e.loadPlace(st, p)
	case types.MethodVal:
		recv := e.eval(st, n.X)
		return FuncV{fn: sel.Obj().(*types.Func), recv: recv}
	}
	e.fail(n, "unsupported selector kind")
	return nil
}

func (e *Engine) evalIndex(st *State, n *ast.IndexExpr) Value {
	bt := e.typeOf(n.X)
	switch u := under(bt).(type) {
	case *types.Slice:
		sv, ok := e.eval(st, n.X).(SliceV)
		if !ok {
			e.fail(n, "index base is not a slice value")
		}
		i := e.asInt(e.eval(st, n.Index), n.Index)
		e.oblige(st, "bounds", e.slug(n), And(Le(I(0), i), Lt(i, sv.ln)), n.Pos(), nil)
		return e.loadElem(st, sv.blk, Add(sv.off, i), u.Elem())
	case *types.Array:
		blk, ok := e.addrOf(st, n.X)
		if !ok {
			e.fail(n, "array is not addressable")
		}
		i := e.asInt(e.eval(st, n.Index), n.Index)
		e.oblige(st, "bounds", e.slug(n), And(Le(I(0), i), Lt(i, I(u.Len()))), n.Pos(), nil)
		return e.loadElem(st, blk, i, u.Elem())
	case *types.Pointer:
		if at, ok := under(u.Elem()).(*types.Array); ok {
			ref := e.asInt(e.eval(st, n.X), n.X)
			e.oblige(st, "nil", e.slug(n), Ne(ref, I(0)), n.Pos(), nil)
			i := e.asInt(e.eval(st, n.Index), n.Index)
			e.oblige(st, "bounds", e.slug(n), And(Le(I(0), i), Lt(i, I(at.Len()))), n.Pos(), nil)
			return e.loadElem(st, ref, i, at.Elem())
		}
	case *types.Basic:
		if u.Info()&types.IsString != 0 {
			s := e.asInt(e.eval(st, n.X), n.X)
			i := e.asInt(e.eval(st, n.Index), n.Index)
			e.oblige(st, "bounds", e.slug(n), And(Le(I(0), i), Lt(i, e.slen(s))), n.Pos(), nil)
			c := e.sbyte(s, i)
			if e.quant == 0 {
				c = e.name("sb", c)
				e.assume(st, And(Le(I(0), c), Lt(c, I(256))), "string bytes are bytes")
			}
			return IntV{c}
		}
	case *types.Map:
		return e.mapIndex(st, n, false)
	}
	e.fail(n, "unsupported index expression on %s", bt)
	return nil
}

func (e *Engine) loadElem(st *State, blk, idx T, elem types.Type) Value {
	if !isScalarElem(elem) {
		r := Sel(Sel(st.Mem, blk), idx)
		if e.quant == 0 {
			r = e.name("elt", r)
			e.assume(st, And(Gt(r, I(0)), Le(Add(r, I(int64(e.cells(elem)))), st.alloc)), "typed memory: boxed element is allocated")
			e.oldStaysOld(st, blk, true, r)
		}
		if e.specMode > 0 {
			if _, ok := under(elem).(*types.Array); ok {
				return ArrV{r}
			}
		}
		return e.loadAt(st, r, elem)
	}
	c := Sel(Sel(st.Mem, blk), idx)
	switch u := under(elem).(type) {
	case *types.Basic:
		if u.Info()&types.IsBoolean != 0 {
			return BoolV{I2B(c)}
		}
		if u.Info()&types.IsString != 0 {
			return StrV{c}
		}
		if e.quant == 0 {
			c = e.name("ld", c)
			e.assume(st, rangeFact(c, elem), "typed memory: "+u.Name())
		}
		return IntV{c}
	default:
		if e.quant == 0 {
			c = e.name("ldp", c)
			e.assume(st, And(Ge(c, I(0)), Lt(c, st.alloc)), "typed memory: reference is allocated")
			e.oldStaysOld(st, blk, true, c)
		}
		return RefV{c}
	}
}

func (e *Engine) storeElem(st *State, blk, idx T, elem types.Type, v Value) {
	if !isScalarElem(elem) {
		// boxed element: write through the existing reference
		r := e.name("elt", Sel(Sel(st.Mem, blk), idx))
		e.storeAt(st, r, elem, v)
		return
	}
	var c T
	switch x := v.(type) {
	case BoolV:
		c = B2I(x.t)
	default:
		c = e.asInt(v, nil)
	}
	e.memWrite(st, blk, Sto(Sel(st.Mem, blk), idx, c), "an element")
}

func (e *Engine) evalSliceExpr(st *State, n *ast.SliceExpr) Value {
	bt := e.typeOf(n.X)
	var blk, off, ln, cp T
	isStr := false
	switch u := under(bt).(type) {
	case *types.Slice:
		sv := e.eval(st, n.X).(SliceV)
		blk, off, ln, cp = sv.blk, sv.off, sv.ln, sv.cp
	case *types.Array:
		b, ok := e.addrOf(st, n.X)
		if !ok {
			e.fail(n, "sliced array is not addressable")
		}
		blk, off, ln, cp = b, I(0), I(u.Len()), I(u.Len())
	case *types.Pointer:
		at, ok := under(u.Elem()).(*types.Array)
		if !ok {
			e.fail(n, "slice of pointer to non-array")
		}
		ref := e.asInt(e.eval(st, n.X), n.X)
		e.oblige(st, "nil", e.slug(n), Ne(ref, I(0)), n.Pos(), nil)
		blk, off, ln, cp = ref, I(0), I(at.Len()), I(at.Len())
	case *types.Basic:
		if u.Info()&types.IsString == 0 {
			e.fail(n, "slice of %s", bt)
		}
		isStr = true
		s := e.asInt(e.eval(st, n.X), n.X)
		blk, off, ln, cp = s, I(0), e.slen(s), e.slen(s)
	default:
		e.fail(n, "slice of %s", bt)
	}
	lo := I(0)
	hi := ln
	max := cp
	if n.Low != nil {
		lo = e.asInt(e.eval(st, n.Low), n.Low)
	}
	if n.High != nil {
		hi = e.asInt(e.eval(st, n.High), n.High)
	}
	if n.Max != nil {
		max = e.asInt(e.eval(st, n.Max), n.Max)
	}
	lo = e.nameQ("lo", lo)
	hi = e.nameQ("hi", hi)
	if n.Slice3 {
		e.oblige(st, "slice", e.slug(n), And(Le(I(0), lo), Le(lo, hi), Le(hi, max), Le(max, cp)), n.Pos(), nil)
	} else if isStr {
		e.oblige(st, "slice", e.slug(n), And(Le(I(0), lo), Le(lo, hi), Le(hi, ln)), n.Pos(), nil)
	} else {
		e.oblige(st, "slice", e.slug(n), And(Le(I(0), lo), Le(lo, hi), Le(hi, cp)), n.Pos(), nil)
	}
	if isStr {
		return e.substr(st, blk, lo, hi)
	}
	return SliceV{blk, e.nameQ("off", Add(off, lo)), e.nameQ("len", Sub(hi, lo)), e.nameQ("cap", Sub(max, lo))}
}

func (e *Engine) nameQ(prefix string, t T) T {
	if e.quant > 0 {
		return t
	}
	return e.name(prefix, t)
}

func (e *Engine) substr(st *State, s, lo, hi T) Value {
	e.declareUF("ssub", "(declare-fun ssub (Int Int Int) Int)")
	r := app(SInt, "ssub", s, lo, hi)
	if e.quant == 0 {
		r = e.nameAlways("sub", r)
		e.strIDs = append(e.strIDs, r)
		e.assume(st, Eq(e.slen(r), Sub(hi, lo)), "substring length")
		if nv, ok := constInt(Sub(hi, lo)); ok && nv >= 0 && nv <= 128 {
			var fs []T
			for i := int64(0); i < nv; i++ {
				fs = append(fs, Eq(e.sbyte(r, I(i)), e.sbyte(s, Add(lo, I(i)))))
			}
			e.assume(st, And(fs...), "substring bytes")
			e.strLens[r.s] = nv
		} else {
			e.nsym++
			v := fmt.Sprintf("k!%d", e.nsym)
			k := T{v, SInt}
			e.assume(st, Forall([]string{v}, Implies(And(Le(I(0), k), Lt(k, Sub(hi, lo))), Eq(e.sbyte(r, k), e.sbyte(s, Add(lo, k))))), "substring bytes")
		}
		e.numeralSubstr(st, r, s, lo, hi)
	}
	return StrV{r}
}

// ---------------------------------------------------------------------------------------
// Composite literals.

func (e *Engine) evalCompositeLit(st *State, n *ast.CompositeLit, addrTaken bool) Value {
	t := e.typeOf(n)
	switch u := under(t).(type) {
	case *types.Struct:
		sv := e.zero(st, t).(StructV)
		for i, el := range n.Elts {
			if kv, ok := el.(*ast.KeyValueExpr); ok {
				name := kv.Key.(*ast.Ident).Name
				for fi := 0; fi < u.NumFields(); fi++ {
					if u.Field(fi).Name() == name {
						sv.f[fi] = e.evalForType(st, kv.Value, u.Field(fi).Type())
					}
				}
			} else {
				sv.f[i] = e.evalForType(st, el, u.Field(i).Type())
			}
		}
		if addrTaken {
			a := e.allocBlock(st, e.cells(t))
			e.storeAt(st, a, t, sv)
			return RefV{a}
		}
		return sv
	case *types.Slice:
		nEl := int64(len(n.Elts))
		blk := e.allocBlock(st, 1)
		arr := T{"((as const (Array Int Int)) 0)", SArr}
		st.Mem = e.name("Mem", Sto(st.Mem, blk, arr))
		for i, el := range n.Elts {
			if _, ok := el.(*ast.KeyValueExpr); ok {
				e.fail(n, "keyed slice literal")
			}
			v := e.evalForType(st, el, u.Elem())
			if isScalarElem(u.Elem()) {
				e.storeElem(st, blk, I(int64(i)), u.Elem(), v)
			} else {
				a := e.allocBlock(st, e.cells(u.Elem()))
				e.storeAt(st, a, u.Elem(), v)
				st.Mem = e.name("Mem", Sto(st.Mem, blk, Sto(Sel(st.Mem, blk), I(int64(i)), a)))
			}
		}
		return SliceV{blk, I(0), I(nEl), I(nEl)}
	case *types.Array:
		av := e.zero(st, t).(ArrV)
		for i, el := range n.Elts {
			if _, ok := el.(*ast.KeyValueExpr); ok {
				e.fail(n, "keyed array literal")
			}
			e.storeElem(st, av.blk, I(int64(i)), u.Elem(), e.evalForType(st, el, u.Elem()))
		}
		return av
	case *types.Map:
		m := e.newMap(st)
		for _, el := range n.Elts {
			kv := el.(*ast.KeyValueExpr)
			k := e.eval(st, kv.Key)
			v := e.evalForType(st, kv.Value, u.Elem())
			e.mapStore(st, m, k, v, u)
		}
		return m
	}
	e.fail(n, "unsupported composite literal of type %s", t)
	return nil
}

// evalForType evaluates x and converts it to the target type (interface boxing of concrete values).
func (e *Engine) evalForType(st *State, x ast.Expr, target types.Type) Value {
	if cl, ok := x.(*ast.CompositeLit); ok && cl.Type == nil {
		// elided type in nested literal
		return e.evalCompositeLit(st, cl, false)
	}
	if e.isNilExpr(x) && target != nil {
		return e.zero(st, target)
	}
	v := e.eval(st, x)
	return e.convertAssign(st, v, e.typeOf(x), target, x)
}

func (e *Engine) isNilExpr(x ast.Expr) bool {
	for {
		if p, ok := x.(*ast.ParenExpr); ok {
			x = p.X
			continue
		}
		break
	}
	id, ok := x.(*ast.Ident)
	if !ok {
		return false
	}
	_, isNil := e.pkg.info.Uses[id].(*types.Nil)
	return isNil
}

// convertAssign handles implicit conversion on assignment: concrete -> interface.
func (e *Engine) convertAssign(st *State, v Value, from, to types.Type, n ast.Node) Value {
	if to == nil || from == nil {
		return v
	}
	if _, isIface := under(to).(*types.Interface); isIface {
		if _, already := v.(IfaceV); already {
			return v
		}
		if b, ok := from.(*types.Basic); ok && b.Kind() == types.UntypedNil {
			return IfaceV{I(0), I(0)}
		}
		return e.box(st, v, from)
	}
	if av, ok := v.(ArrV); ok && e.specMode == 0 {
		// array assignment copies
		blk := e.allocBlock(st, 1)
		st.Mem = e.name("Mem", Sto(st.Mem, blk, Sel(st.Mem, av.blk)))
		return ArrV{blk}
	}
	if sv, ok := v.(StructV); ok && e.specMode == 0 {
		return e.copyStruct(st, sv)
	}
	return v
}

func (e *Engine) copyStruct(st *State, sv StructV) Value {
	out := StructV{typ: sv.typ, f: make([]Value, len(sv.f))}
	for i, f := range sv.f {
		switch x := f.(type) {
		case ArrV:
			blk := e.allocBlock(st, 1)
			st.Mem = e.name("Mem", Sto(st.Mem, blk, Sel(st.Mem, x.blk)))
			out.f[i] = ArrV{blk}
		case StructV:
			out.f[i] = e.copyStruct(st, x)
		default:
			out.f[i] = f
		}
	}
	return out
}

// box turns a concrete value into an interface value.
func (e *Engine) box(st *State, v Value, from types.Type) Value {
	tag := e.typeID(from)
	switch x := v.(type) {
	case RefV:
		// pointer-shaped: the interface reference is the pointer itself (nil pointer in a non-nil interface
		// is modelled as reference 0 with a non-zero tag)
		return IfaceV{x.t, Ite(Eq(x.t, I(0)), I(0), tag)}
	default:
		a := e.allocBlock(st, e.cells(from))
		e.storeAt(st, a, from, v)
		return IfaceV{a, tag}
	}
}

func (e *Engine) evalTypeAssert(st *State, n *ast.TypeAssertExpr, commaOk bool) (Value, T) {
	if n.Type == nil {
		e.fail(n, "type switch guard outside switch")
	}
	iv, ok := e.eval(st, n.X).(IfaceV)
	if !ok {
		e.fail(n, "type assertion on non-interface value")
	}
	target := e.typeOf(n.Type)
	if _, isIface := under(target).(*types.Interface); isIface {
		okT := e.fresh("assert_ok", SBool)
		if !commaOk {
			e.oblige(st, "typeassert", e.slug(n), okT, n.Pos(), nil)
		}
		e.abstract("interface-to-interface assertion")
		return iv, okT
	}
	okT := Eq(iv.tag, e.typeID(target))
	if !commaOk {
		e.oblige(st, "typeassert", e.slug(n), okT, n.Pos(), nil)
	}
	var v Value
	switch under(target).(type) {
	case *types.Pointer, *types.Map, *types.Chan, *types.Signature:
		v = RefV{Ite(okT, iv.ref, I(0))}
	default:
		if commaOk {
			e.abstract("comma-ok assertion to value type")
			v = e.symbolic(st, "assert", target)
		} else {
			v = e.loadAt(st, iv.ref, target)
		}
	}
	return v, okT
}

func heapsDiffer(a, b *State) bool {
	if a.epoch != b.epoch || len(a.H) != len(b.H) {
		return true
	}
	for k, v := range a.H {
		if w, ok := b.H[k]; !ok || w.s != v.s {
			return true
		}
	}
	return false
}

func (e *Engine) isUniverseCall(call *ast.CallExpr) bool {
	fun := call.Fun
	if ix, ok := fun.(*ast.IndexExpr); ok {
		fun = ix.X // explicit instantiation of a universe generic
	}
	if id, ok := fun.(*ast.Ident); ok {
		if f, ok := e.pkg.info.Uses[id].(*types.Func); ok && f.Pkg() == nil {
			return true
		}
	}
	return false
}

package main

// govc sweep: a zero-annotation no-panic sweep.  Every function of the selected /repo packages that has no contract
// gets a synthetic one (pointer/interface/map parameters and the receiver non-nil, `modifies *`, panic-freedom on);
// only safety obligations the solvers refute with a model (`sat`) are reported: candidates for triage, not verdicts.
// Nothing a sweep prints is a VIOLATION; it writes no evidence.

import (
	"flag"
	"fmt"
	"go/types"
	"os"
	"path/filepath"
	"runtime"
	"sort"
	"strings"
)

func cmdSweep(args []string) int {
	fs := flag.NewFlagSet("sweep", flag.ExitOnError)
	repo := fs.String("repo", "/repo", "")
	pkgSub := fs.String("pkg", "", "only packages whose path contains this")
	fnSub := fs.String("func", "", "only functions whose name contains this")
	timeout := fs.Int("timeout", 10, "solver seconds per obligation")
	emit := fs.Bool("emit", false, "print a C19 contract block for every function all of whose safety obligations are discharged under the synthetic precondition")
	fs.Parse(args)
	prog, err := loadProgram(*repo, repoPkgPatterns, nil)
	if err != nil {
		fmt.Println(err)
		return 2
	}
	if err := prog.loadExtContracts(filepath.Join(verifRoot(), "contracts", "ext")); err != nil {
		fmt.Println(err)
		return 2
	}
	if err := prog.bindContracts(); err != nil {
		fmt.Println(err)
		return 2
	}
	var keys []string
	for k, fi := range prog.funcs {
		if !strings.HasPrefix(fi.fn.Pkg().Path(), repoModule) || fi.decl.Body == nil {
			continue
		}
		if strings.HasSuffix(prog.fset.Position(fi.decl.Pos()).Filename, "_verif.go") || strings.HasSuffix(prog.fset.Position(fi.decl.Pos()).Filename, "_test.go") {
			continue
		}
		if *pkgSub != "" && !strings.Contains(fi.fn.Pkg().Path(), *pkgSub) {
			continue
		}
		if *fnSub != "" && !strings.Contains(k, *fnSub) {
			continue
		}
		if _, has := prog.contracts[k]; has {
			continue
		}
		keys = append(keys, k)
	}
	sort.Strings(keys)
	var results []*FuncResult
	reqOf := map[string]string{}
	skipped := 0
	for _, k := range keys {
		fi := prog.funcs[k]
		sig := fi.fn.Type().(*types.Signature)
		var reqs []string
		addNN := func(v *types.Var) {
			if v == nil || v.Name() == "" || v.Name() == "_" {
				return
			}
			switch under(v.Type()).(type) {
			case *types.Pointer, *types.Interface, *types.Map, *types.Signature:
				reqs = append(reqs, v.Name()+" != nil")
			}
		}
		addNN(sig.Recv())
		for i := 0; i < sig.Params().Len(); i++ {
			addNN(sig.Params().At(i))
		}
		reqOf[k] = strings.Join(reqs, " && ")
		b := &rawBlock{key: k, where: "sweep"}
		b.clauses = append(b.clauses, &rawClause{kind: "props", text: "SWEEP", where: "sweep"})
		if len(reqs) > 0 {
			b.clauses = append(b.clauses, &rawClause{kind: "requires", text: strings.Join(reqs, " && "), where: "sweep"})
		}
		b.clauses = append(b.clauses, &rawClause{kind: "modifies", text: "*", where: "sweep"})
		if err := prog.bindBlock(fi.pkg, b, false); err != nil {
			skipped++
			continue
		}
		fc := prog.contracts[k]
		if fc == nil {
			skipped++
			continue
		}
		e := newEngine(prog)
		var res *FuncResult
		func() {
			defer func() {
				if r := recover(); r != nil {
					res = &FuncResult{outside: fmt.Sprint(r)} // engine limitation: skipped in a sweep
				}
			}()
			res = e.verifyFunc(fc)
		}()
		delete(prog.contracts, k) // callers in the sweep see no contract (havoc), as without the sweep
		if res.outside != "" {
			skipped++
			continue
		}
		results = append(results, res)
	}
	for _, r := range results {
		var keep []*Oblig
		for _, ob := range r.obligs {
			switch ob.kind {
			case "bounds", "slice", "nil", "nilmap", "div", "make", "typeassert":
				keep = append(keep, ob)
			}
		}
		r.obligs = keep
	}
	dir, _ := os.MkdirTemp("", "govc-sweep-")
	defer os.RemoveAll(dir)
	fastOnly = !*emit
	solveAll(results, dir, *timeout, runtime.NumCPU(), false, map[string]bool{})
	if *emit {
		byPkg := map[string][]string{}
		for _, r := range results {
			if len(r.obligs) == 0 || r.fc == nil || r.fc.decl == nil {
				continue
			}
			file := prog.fset.Position(r.fc.decl.Pos()).Filename
			if strings.HasSuffix(file, ".pb.go") || strings.HasSuffix(file, ".pb.gw.go") {
				continue
			}
			ok := true
			for _, ob := range r.obligs {
				if ob.status != "unsat" {
					ok = false
				}
			}
			if !ok {
				continue
			}
			// contract key relative to the package: Name, (*T).Name, T.Name
			key := r.fc.fn.Name()
			if sig := r.fc.fn.Type().(*types.Signature); sig.Recv() != nil {
				rt := sig.Recv().Type()
				if pt, isPtr := rt.(*types.Pointer); isPtr {
					if nt, ok := pt.Elem().(*types.Named); ok {
						key = "(*" + nt.Obj().Name() + ")." + key
					}
				} else if nt, ok := rt.(*types.Named); ok {
					key = nt.Obj().Name() + "." + key
				}
			}
			blk := "//@ func " + key + "\n//@   props C19\n"
			if reqOf[r.key] != "" {
				blk += "//@   requires " + reqOf[r.key] + "\n"
			}
			blk += "//@   modifies *\n//@   standalone\n"
			byPkg[r.fc.pkg.PkgPath] = append(byPkg[r.fc.pkg.PkgPath], fmt.Sprintf("// %d safety obligations (%s)\n%s", len(r.obligs), relRepo(file), blk))
		}
		var pk []string
		for k := range byPkg {
			pk = append(pk, k)
		}
		sort.Strings(pk)
		for _, k := range pk {
			fmt.Printf("### %s\n", k)
			for _, b := range byPkg[k] {
				fmt.Println(b)
			}
		}
	}
	n, nsat := 0, 0
	for _, r := range results {
		for _, ob := range r.obligs {
			n++
			if ob.status == "sat" {
				nsat++
				fmt.Printf("candidate: %s  [%s] at %s\n", ob.name, ob.solver, ob.pos)
			}
		}
	}
	fmt.Printf("sweep: %d functions analysed, %d outside the subset or not bindable, %d safety obligations, %d refuted with a model\n", len(results), skipped, n, nsat)
	return 0
}

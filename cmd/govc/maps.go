package main

// Go maps as finite maps in ghost heaps: MapP (presence), MapV (value cell), MapN (size).

import (
	"fmt"
	"go/ast"
	"go/types"
)

func (e *Engine) ensureMapHeaps(st *State) {
	if _, ok := st.ghost["MapP"]; !ok {
		st.ghost["MapP"] = e.fresh("MapP", SHeap)
		st.ghost["MapV"] = e.fresh("MapV", SHeap)
		st.ghost["MapN"] = e.fresh("MapN", SArr)
	}
}

func (e *Engine) newMap(st *State) Value {
	e.ensureMapHeaps(st)
	r := e.allocBlock(st, 1)
	st.ghost["MapP"] = e.name("MapP", Sto(st.ghost["MapP"], r, T{"((as const (Array Int Int)) 0)", SArr}))
	st.ghost["MapN"] = e.name("MapN", Sto(st.ghost["MapN"], r, I(0)))
	return RefV{r}
}

func (e *Engine) mapKey(st *State, k Value, n ast.Node, kts ...types.Type) T {
	switch x := k.(type) {
	case ArrV:
		// byte-array keys (hashes): the key is the string of the array's bytes
		var kt types.Type
		if len(kts) > 0 {
			kt = kts[0]
		} else if ex, ok := n.(ast.Expr); ok && n != nil {
			kt = e.typeOf(ex)
		}
		if kt != nil {
			if at, ok := under(kt).(*types.Array); ok && isByteLike(at.Elem()) {
				return e.strOf(st, Sel(st.Mem, x.blk), I(0), I(at.Len()))
			}
		}
	case IntV:
		return x.t
	case StrV:
		return x.t
	case RefV:
		return x.t
	case BoolV:
		return B2I(x.t)
	}
	e.fail(n, "map key of kind %T is outside the subset", k)
	return T{}
}

func (e *Engine) mapLen(st *State, m Value) T {
	e.ensureMapHeaps(st)
	ref := e.asInt(m, nil)
	n := Sel(st.ghost["MapN"], ref)
	if e.quant == 0 {
		n = e.name("maplen", n)
		e.assume(st, And(Ge(n, I(0)), Implies(Eq(ref, I(0)), Eq(n, I(0)))), "map size is non-negative")
	}
	return n
}

func (e *Engine) mapHas(st *State, m Value, k T) T {
	e.ensureMapHeaps(st)
	ref := e.asInt(m, nil)
	return And(Ne(ref, I(0)), Eq(Sel(Sel(st.ghost["MapP"], ref), k), I(1)))
}

func (e *Engine) mapCell(st *State, m Value, k T) T {
	e.ensureMapHeaps(st)
	ref := e.asInt(m, nil)
	return Sel(Sel(st.ghost["MapV"], ref), k)
}

func (e *Engine) cellToValue(st *State, c T, t types.Type) Value {
	switch u := under(t).(type) {
	case *types.Basic:
		if u.Info()&types.IsBoolean != 0 {
			return BoolV{I2B(c)}
		}
		if u.Info()&types.IsString != 0 {
			return StrV{c}
		}
		if e.quant == 0 {
			c = e.name("mv", c)
			e.assume(st, rangeFact(c, t), "typed memory: map value")
		}
		return IntV{c}
	case *types.Pointer, *types.Map, *types.Chan, *types.Signature:
		if e.quant == 0 {
			c = e.name("mv", c)
		}
		e.assumeQ(st, And(Ge(c, I(0)), Lt(c, st.alloc)), "typed memory: map value reference")
		return RefV{c}
	default:
		// boxed aggregate
		if e.quant == 0 {
			c = e.name("mv", c)
		}
		return e.loadAt(st, c, t)
	}
}

func (e *Engine) mapIndex(st *State, n *ast.IndexExpr, commaOk bool) Value {
	mt := under(e.typeOf(n.X)).(*types.Map)
	m := e.eval(st, n.X)
	k := e.mapKey(st, e.eval(st, n.Index), n.Index)
	has := e.nameQ("has", e.mapHas(st, m, k))
	cell := e.mapCell(st, m, k)
	var v Value
	if isScalarElem(mt.Elem()) {
		zero := e.zero(st, mt.Elem())
		pv := e.cellToValue(st, cell, mt.Elem())
		v = e.mergeValues(has, pv, zero)
	} else {
		// boxed: absent keys yield the zero value; keep it simple by case split through merge
		if e.specMode > 0 {
			v = e.loadAt(st, cell, mt.Elem())
		} else {
			zero := e.zero(st, mt.Elem())
			pv := e.loadAt(st, e.name("mv", cell), mt.Elem())
			v = e.mergeValues(has, pv, zero)
		}
	}
	if commaOk {
		return TupleV{v, BoolV{has}}
	}
	return v
}

func (e *Engine) mapStore(st *State, m Value, k Value, v Value, mt *types.Map) {
	e.ensureMapHeaps(st)
	ref := e.asInt(m, nil)
	kt := e.mapKey(st, k, nil, mt.Key())
	var cell T
	if isScalarElem(mt.Elem()) {
		switch x := v.(type) {
		case BoolV:
			cell = B2I(x.t)
		default:
			cell = e.asInt(v, nil)
		}
	} else {
		a := e.allocBlock(st, e.cells(mt.Elem()))
		e.storeAt(st, a, mt.Elem(), v)
		cell = a
	}
	e.checkMapWrite(st, ref, "a map")
	had := Eq(Sel(Sel(st.ghost["MapP"], ref), kt), I(1))
	st.ghost["MapN"] = e.name("MapN", Sto(st.ghost["MapN"], ref, Add(Sel(st.ghost["MapN"], ref), Ite(had, I(0), I(1)))))
	st.ghost["MapP"] = e.name("MapP", Sto(st.ghost["MapP"], ref, Sto(Sel(st.ghost["MapP"], ref), kt, I(1))))
	st.ghost["MapV"] = e.name("MapV", Sto(st.ghost["MapV"], ref, Sto(Sel(st.ghost["MapV"], ref), kt, cell)))
}

func (e *Engine) mapDelete(st *State, m Value, k Value, keyT types.Type) {
	e.ensureMapHeaps(st)
	ref := e.asInt(m, nil)
	kt := e.mapKey(st, k, nil, keyT)
	e.checkMapWrite(st, ref, "a map")
	had := Eq(Sel(Sel(st.ghost["MapP"], ref), kt), I(1))
	st.ghost["MapN"] = e.name("MapN", Sto(st.ghost["MapN"], ref, Sub(Sel(st.ghost["MapN"], ref), Ite(had, I(1), I(0)))))
	st.ghost["MapP"] = e.name("MapP", Sto(st.ghost["MapP"], ref, Sto(Sel(st.ghost["MapP"], ref), kt, I(0))))
}

func (e *Engine) havocMap(st *State, m RefV) {
	e.ensureMapHeaps(st)
	e.checkMapWrite(st, m.t, "a map named in a modifies clause")
	st.ghost["MapP"] = e.name("MapP", Sto(st.ghost["MapP"], m.t, e.fresh("havoc_mp", SArr)))
	st.ghost["MapV"] = e.name("MapV", Sto(st.ghost["MapV"], m.t, e.fresh("havoc_mv", SArr)))
	st.ghost["MapN"] = e.name("MapN", Sto(st.ghost["MapN"], m.t, e.fresh("havoc_mn", SInt)))
}

// execRangeMap: iteration over a map in an arbitrary duplicate-free order.  The loop is cut at its
// invariants; the ghost set `visited` (keys already seen) is available to invariants as ghost state.
func (e *Engine) execRangeMap(st *State, n *ast.RangeStmt, cx *Ctx, lc *LoopContract, keyObj, valObj *types.Var, mt *types.Map) *State {
	e.ensureMapHeaps(st)
	m := e.eval(st, n.X)
	zeroVis := T{"((as const (Array Int Int)) 0)", SArr}
	e.visStack = append(e.visStack, zeroVis)
	e.checkInvariants(st, lc, "inv-init", n.Pos())
	pushedLF := e.pushLoopFrame(st, lc)
	defer e.popLoopFrame(pushedLF)
	head := st
	e.havocLoopTargets(head, n.Body)
	// ghost: the set of keys already visited (each key of the map is visited exactly once; the map is not
	// modified by the loop body: checked below)
	vis := e.fresh("visited", SArr)
	e.visStack[len(e.visStack)-1] = vis
	{
		e.nsym++
		v := fmt.Sprintf("vk!%d", e.nsym)
		k := T{v, SInt}
		e.assume(head, Forall([]string{v}, And(Or(Eq(Sel(vis, k), I(0)), Eq(Sel(vis, k), I(1))), Implies(Eq(Sel(vis, k), I(1)), e.mapHas(head, m, k)))), "visited keys are keys of the map")
	}
	mapP0, mapV0 := head.ghost["MapP"], head.ghost["MapV"]
	e.assumeInvariants(head, lc)
	e.noteAssumption("map iteration: arbitrary order, each key once (ghost visited-set); the iterated map must not change in the loop")
	exit := head.clone()
	{
		e.nsym++
		v := fmt.Sprintf("vk!%d", e.nsym)
		k := T{v, SInt}
		exit.pc = e.name("pc", And(head.pc, Forall([]string{v}, Implies(e.mapHas(head, m, k), Eq(Sel(vis, k), I(1))))))
	}
	body := head
	k := e.fresh("mapkey", SInt)
	body.pc = e.name("pc", And(head.pc, e.mapHas(body, m, k), Eq(Sel(vis, k), I(0))))
	if keyObj != nil {
		switch u := under(mt.Key()).(type) {
		case *types.Basic:
			if u.Info()&types.IsString != 0 {
				body.vars[keyObj] = StrV{k}
				e.assume(body, Ge(e.slen(k), I(0)), "string length")
				e.strIDs = append(e.strIDs, k)
			} else {
				body.vars[keyObj] = IntV{k}
				e.assume(body, rangeFact(k, mt.Key()), "type range")
			}
		default:
			body.vars[keyObj] = RefV{k}
		}
	}
	if valObj != nil {
		body.vars[valObj] = e.cellToValue(body, e.mapCell(body, m, k), mt.Elem())
	}
	inner := &Ctx{fnContract: cx.fnContract, loopOrd: cx.loopOrd, ifOrd: cx.ifOrd, closureOrd: cx.closureOrd, results: cx.results, defers: cx.defers}
	iterStart := body.clone()
	out := e.execBlock(body, n.Body.List, inner)
	back := e.merge(append([]*State{out}, inner.continues...))
	if back != nil {
		// the iterated map itself is unchanged
		ref := e.asInt(m, nil)
		e.oblige(back.clone(), "mapiter", "the iterated map is not modified by the loop body",
			And(Eq(Sel(back.ghost["MapP"], ref), Sel(mapP0, ref)), Eq(Sel(back.ghost["MapV"], ref), Sel(mapV0, ref))), n.Pos(), nil)
		e.checkSteps(back, iterStart, lc, n.Pos())
		e.visStack[len(e.visStack)-1] = e.name("visited", Sto(vis, k, I(1)))
		e.invHead, e.invHeadVis = iterStart, vis
		e.checkInvariants(back, lc, "inv-pres", n.Pos())
		e.invHead, e.invHeadVis = nil, T{}
	}
	e.visStack = e.visStack[:len(e.visStack)-1]
	cx.returns = append(cx.returns, inner.returns...)
	cx.defers = inner.defers
	return e.merge(append([]*State{exit}, inner.breaks...))
}

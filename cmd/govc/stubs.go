package main

import (
	"encoding/json"
	"fmt"
	"os"
	"path/filepath"
	"strings"
)


func writeReplay(prog *Program, res *FuncResult, o checkOpts, ob *Oblig, dir string) (string, bool) {
	_ = os.MkdirAll(dir, 0o755)
	name := sanitize(ob.name)
	if len(name) > 150 {
		name = name[:150]
	}
	path := filepath.Join(dir, name+".json")
	rp := tryReplay(prog, res, ob, o.repo, o.overlay)
	rec := map[string]interface{}{
		"property":      o.property,
		"obligation":    ob.name,
		"kind":          ob.kind,
		"at":            ob.pos,
		"status":        ob.status,
		"solver":        ob.solver,
		"solver_output": ob.output,
		"model":         truncate(ob.model, 20000),
		"replay":        rp,
		"reproduced":    rp.Reproduced,
	}
	b, _ := json.MarshalIndent(rec, "", " ")
	_ = os.WriteFile(path, append(b, '\n'), 0o644)
	return path, rp.Reproduced
}

func cmdReplay(args []string) int {
	if len(args) < 1 {
		usage()
	}
	b, err := os.ReadFile(args[0])
	if err != nil {
		fmt.Println(err)
		return 2
	}
	fmt.Println(strings.TrimSpace(string(b)))
	return 0
}

func cmdSelftest(args []string) int { return 0 }

package main

import (
	"encoding/json"
	"fmt"
	"os"
	"path/filepath"
	"strings"
)


func writeReplay(prog *Program, res *FuncResult, o checkOpts, ob *Oblig, dir string) (string, bool) {
	_ = os.MkdirAll(dir, 0o755)
	name := sanitize(ob.name)
	if len(name) > 150 {
		name = name[:150]
	}
	path := filepath.Join(dir, name+".json")
	rp := tryReplay(prog, res, ob, o.repo, o.overlay)
	rec := map[string]interface{}{
		"property":      o.property,
		"obligation":    ob.name,
		"kind":          ob.kind,
		"at":            ob.pos,
		"status":        ob.status,
		"solver":        ob.solver,
		"solver_output": ob.output,
		"model":         truncate(ob.model, 20000),
		"replay":        rp,
		"reproduced":    rp.Reproduced,
	}
	b, _ := json.MarshalIndent(rec, "", " ")
	_ = os.WriteFile(path, append(b, '\n'), 0o644)
	return path, rp.Reproduced
}

func cmdReplay(args []string) int {
	if len(args) < 1 {
		usage()
	}
	b, err := os.ReadFile(args[0])
	if err != nil {
		fmt.Println(err)
		return 2
	}
	fmt.Println(strings.TrimSpace(string(b)))
	return 0
}

// cmdSelftest: the must-fail corpus.  For every claimed property (or the ones given) every stored seeded change that the
// quick check is known to report is applied to a scratch copy of /repo's working tree; the check must fail there.
// Exit 1 when a canary is no longer reported (the machinery lost strength).  Run after every engine change.
func cmdSelftest(args []string) int {
	props := args
	if len(props) == 0 {
		b, err := os.ReadFile(filepath.Join(verifRoot(), "MANIFEST.json"))
		if err != nil {
			fmt.Println(err)
			return 2
		}
		var m struct {
			Checks []struct {
				PropertyID string `json:"property_id"`
			} `json:"checks"`
		}
		if json.Unmarshal(b, &m) != nil {
			return 2
		}
		for _, c := range m.Checks {
			props = append(props, c.PropertyID)
		}
	}
	missed := 0
	for _, p := range props {
		res := runCanaries(checkOpts{property: p, repo: "/repo"})
		for _, c := range res {
			fmt.Printf("%-7s %s\n", c.Seed, c.Status)
			if c.Status != "detected" {
				missed++
			}
		}
	}
	if missed > 0 {
		fmt.Printf("selftest: %d canaries no longer reported\n", missed)
		return 1
	}
	fmt.Println("selftest: every canary is reported")
	return 0
}

package main

import (
	"encoding/json"
	"fmt"
	"os"
	"path/filepath"
	"strings"
)


func writeReplay(prog *Program, res *FuncResult, o checkOpts, ob *Oblig, dir string) (string, bool) {
	_ = os.MkdirAll(dir, 0o755)
	name := sanitize(ob.name)
	if len(name) > 150 {
		name = name[:150]
	}
	path := filepath.Join(dir, name+".json")
	rp := tryReplay(prog, res, ob, o.repo, o.overlay)
	rec := map[string]interface{}{
		"property":      o.property,
		"obligation":    ob.name,
		"kind":          ob.kind,
		"at":            ob.pos,
		"status":        ob.status,
		"solver":        ob.solver,
		"solver_output": ob.output,
		"model":         truncate(ob.model, 20000),
		"replay":        rp,
		"reproduced":    rp.Reproduced,
	}
	b, _ := json.MarshalIndent(rec, "", " ")
	_ = os.WriteFile(path, append(b, '\n'), 0o644)
	return path, rp.Reproduced
}

// cmdReplay: re-decides the failed obligation named in a replay file on /repo's current working tree (same generator,
// same solvers) and prints the stored record: exit 1 while the obligation still fails, 0 once it is discharged.
func cmdReplay(args []string) int {
	if len(args) < 1 {
		usage()
	}
	b, err := os.ReadFile(args[0])
	if err != nil {
		fmt.Println(err)
		return 2
	}
	var rec struct {
		Property   string `json:"property"`
		Obligation string `json:"obligation"`
		Status     string `json:"status"`
	}
	fmt.Println(strings.TrimSpace(string(b)))
	if json.Unmarshal(b, &rec) != nil || rec.Property == "" || rec.Obligation == "" {
		return 0
	}
	name := rec.Obligation
	out := runCheck(checkOpts{property: rec.Property, tier: "quick", repo: "/repo", only: name, noEvidence: true, quiet: true})
	for _, ob := range out.failed {
		if ob.name == name {
			fmt.Printf("REPLAY: obligation still fails on the current tree: %s [%s, %s]\n", ob.name, ob.status, ob.solver)
			return 1
		}
	}
	for _, ob := range out.known {
		if ob.name == name {
			fmt.Printf("REPLAY: obligation still fails on the current tree (listed as a known finding): %s\n", ob.name)
			return 1
		}
	}
	found := false
	for _, ob := range out.obligs {
		if ob.name == name {
			found = true
		}
	}
	if !found {
		fmt.Printf("REPLAY: the obligation is no longer generated on the current tree (contract or code changed): %s\n", name)
		return 0
	}
	fmt.Printf("REPLAY: obligation is discharged on the current tree: %s\n", name)
	return 0
}

// cmdSelftest: the must-fail corpus.  For every claimed property (or the ones given) every stored seeded change that the
// quick check is known to report is applied to a scratch copy of /repo's working tree; the check must fail there.
// Exit 1 when a canary is no longer reported (the machinery lost strength).  Run after every engine change.
func cmdSelftest(args []string) int {
	props := args
	if len(props) == 0 {
		b, err := os.ReadFile(filepath.Join(verifRoot(), "MANIFEST.json"))
		if err != nil {
			fmt.Println(err)
			return 2
		}
		var m struct {
			Checks []struct {
				PropertyID string `json:"property_id"`
			} `json:"checks"`
		}
		if json.Unmarshal(b, &m) != nil {
			return 2
		}
		for _, c := range m.Checks {
			props = append(props, c.PropertyID)
		}
	}
	missed := 0
	for _, p := range props {
		res := runCanaries(checkOpts{property: p, repo: "/repo"})
		for _, c := range res {
			fmt.Printf("%-7s %s\n", c.Seed, c.Status)
			if c.Status != "detected" {
				missed++
			}
		}
	}
	if missed > 0 {
		fmt.Printf("selftest: %d canaries no longer reported\n", missed)
		return 1
	}
	fmt.Println("selftest: every canary is reported")
	return 0
}

package main

// Calls: builtins, conversions, contract calls, inlining, external models, havoc.

import (
	"fmt"
	"go/ast"
	"go/token"
	"go/types"
	"regexp"
	"sort"
	"strings"
)

func sortVars(v []*types.Var) {
	sort.Slice(v, func(i, j int) bool {
		if v[i].Pos() != v[j].Pos() {
			return v[i].Pos() < v[j].Pos()
		}
		return v[i].Name() < v[j].Name()
	})
}

// arrCopy returns dst with [doff, doff+n) replaced by src[soff, soff+n).
func (e *Engine) arrCopy(dst, doff, src, soff, n T) T {
	if nv, ok := constInt(n); ok && nv <= 128 {
		if nv <= 0 {
			return dst
		}
		r := dst
		// name sources to keep the term small
		src = e.nameQ("src", src)
		for i := int64(0); i < nv; i++ {
			r = Sto(r, Add(doff, I(i)), Sel(src, Add(soff, I(i))))
		}
		return e.nameQ("cp", r)
	}
	if e.quant > 0 {
		e.fail(nil, "array copy of symbolic length inside a quantifier")
	}
	dst = e.name("dst", dst)
	src = e.name("src", src)
	doff = e.name("doff", doff)
	soff = e.name("soff", soff)
	n = e.name("n", n)
	e.nsym++
	name := fmt.Sprintf("cpy!%d", e.nsym)
	body := fmt.Sprintf("(lambda ((i Int)) (ite (and (<= %s i) (< i (+ %s %s))) (select %s (+ %s (- i %s))) (select %s i)))",
		doff.s, doff.s, n.s, src.s, soff.s, doff.s, dst.s)
	axiom := fmt.Sprintf("(forall ((i Int)) (! (= (select %s i) (ite (and (<= %s i) (< i (+ %s %s))) (select %s (+ %s (- i %s))) (select %s i))) :pattern ((select %s i))))",
		name, doff.s, doff.s, n.s, src.s, soff.s, doff.s, dst.s, name)
	e.defs = append(e.defs, Def{name: name, sort: SArr, body: body, lambda: true, axiom: axiom})
	return T{name, SArr}
}

func (e *Engine) sarr(s T) T {
	e.declareUF("sarr", "(declare-fun sarr (Int) (Array Int Int))")
	return app(SArr, "sarr", s)
}

// strOf: the string whose bytes are arr[off, off+n).
func (e *Engine) strOf(st *State, arr, off, n T) T {
	e.declareUF("str_of", "(declare-fun str_of ((Array Int Int) Int Int) Int)")
	r := app(SInt, "str_of", arr, off, n)
	if e.quant > 0 {
		// under a quantifier no per-term facts are made, except, with `theory strlen` on the contract, the length fact
		// as a side fact of the quantifier body (closed over the bound variables with it).  Not by default: it slowed
		// unrelated quantified goals; a global axiom over array-sorted variables is worse -- it switches the solvers'
		// model-based instantiation off
		if e.strLenQ {
			e.assume(st, Implies(Ge(n, I(0)), Eq(e.slen(r), n)), "string(bytes) length")
		}
		return r
	}
	// the same bytes denote the same string: reuse the identity (and its content facts) created on this path
	key := st.pc.s + "|" + r.s
	if prev, ok := e.strOfMemo[key]; ok && prev.idx < len(e.defs) && e.defs[prev.idx].name == prev.t.s {
		return prev.t
	}
	r = e.nameAlways("str", r)
	if e.strOfMemo == nil {
		e.strOfMemo = map[string]strMemo{}
	}
	e.strOfMemo[key] = strMemo{r, len(e.defs) - 1}
	e.assume(st, Eq(e.slen(r), n), "string(bytes) length")
	if nv, ok := constInt(n); ok && nv <= 128 {
		// constant length: ground content facts (keeps key reasoning quantifier-free)
		arrN := e.name("sarr", arr)
		var fs []T
		for i := int64(0); i < nv; i++ {
			fs = append(fs, Eq(e.sbyte(r, I(i)), Sel(arrN, Add(off, I(i)))))
		}
		e.assume(st, And(fs...), "string(bytes) content")
		e.strLens[r.s] = nv
	} else {
		e.nsym++
		v := fmt.Sprintf("k!%d", e.nsym)
		k := T{v, SInt}
		e.assume(st, Forall([]string{v}, Implies(And(Le(I(0), k), Lt(k, n)), Eq(e.sbyte(r, k), Sel(arr, Add(off, k))))), "string(bytes) content")
	}
	e.strTerms = append(e.strTerms, strTerm{r, arr, off, n})
	e.strIDs = append(e.strIDs, r)
	return r
}

type strTerm struct{ id, arr, off, n T }
type strMemo struct {
	t   T
	idx int
}

func (e *Engine) isDroppedCall(call *ast.CallExpr) bool {
	fn := e.calleeFunc(call)
	if fn == nil {
		return false
	}
	full := fn.FullName()
	switch {
	case strings.HasPrefix(full, "(*sync.Mutex)."), strings.HasPrefix(full, "(*sync.RWMutex)."), strings.HasPrefix(full, "(*sync.WaitGroup)."):
		e.noteAssumption("sync primitives dropped: sequential semantics, no interleaving modelled")
		return true
	}
	return false
}

func (e *Engine) calleeFunc(call *ast.CallExpr) *types.Func {
	switch f := call.Fun.(type) {
	case *ast.Ident:
		if fn, ok := e.pkg.info.Uses[f].(*types.Func); ok {
			return fn
		}
	case *ast.SelectorExpr:
		if sel := e.pkg.info.Selections[f]; sel != nil {
			if fn, ok := sel.Obj().(*types.Func); ok {
				return fn
			}
			return nil
		}
		if fn, ok := e.pkg.info.Uses[f.Sel].(*types.Func); ok {
			return fn
		}
	case *ast.ParenExpr:
		return e.calleeFunc(&ast.CallExpr{Fun: f.X, Args: call.Args})
	}
	return nil
}

var pureExternalPrefixes = []string{"(error).Error", "(*github.com/massnetorg/mass-core/txscript.Engine).", "fmt.", "errors.", "strings.", "strconv.", "bytes.", "encoding/hex.", "encoding/binary.",
	"(encoding/binary.", "github.com/massnetorg/mass-core/logging.", "math.", "sort.Search", "unicode.", "time.", "(time.",
	"encoding/json.Marshal", "(*encoding/json", "runtime/debug.", "os.Getenv", "crypto/sha256.", "crypto/sha512.", "crypto/subtle.",
	"(github.com/massnetorg/mass-core/massutil.Amount).", "github.com/massnetorg/mass-core/massutil.", "(github.com/massnetorg/mass-core/massutil/safetype",
	"github.com/massnetorg/mass-core/massutil/safetype.", "(*github.com/massnetorg/mass-core/massutil/safetype", "reflect.", "unicode/utf8.",
	"(github.com/massnetorg/mass-core/wire.Hash).", "(*github.com/massnetorg/mass-core/wire.Hash).String", "(*github.com/massnetorg/mass-core/wire.Hash).IsEqual",
	"github.com/massnetorg/mass-core/wire.NewHash", "github.com/massnetorg/mass-core/wire.DoubleHash", "github.com/massnetorg/mass-core/wire.HashB", "github.com/massnetorg/mass-core/wire.HashH",
	"(*github.com/massnetorg/mass-core/wire.MsgTx).TxHash", "(*github.com/massnetorg/mass-core/wire.MsgTx).PlainSize", "(*github.com/massnetorg/mass-core/wire.MsgTx).Bytes",
	"github.com/massnetorg/mass-core/txscript.", "github.com/massnetorg/mass-core/blockchain.", "github.com/massnetorg/mass-core/consensus/forks.",
	"github.com/massnetorg/mass-core/consensus.", "github.com/btcsuite/btcd/btcec.", "(*github.com/btcsuite/btcd/btcec", "golang.org/x/crypto/",
	"crypto/hmac.", "crypto/rand.", "github.com/btcsuite/btcutil/base58.", "github.com/massnetorg/mass-core/massutil/base58.",
	"(*math/big.Int).Cmp", "(*math/big.Int).Sign", "(*math/big.Int).Bytes", "(*math/big.Int).String", "(*math/big.Int).BitLen", "(*math/big.Int).Int64", "(*math/big.Int).Uint64", "math/big.NewInt",
	"(github.com/massnetorg/mass-core/massutil.Address).", "(*github.com/massnetorg/mass-core/massutil.Address",
}

func isPureExternalName(full string) bool {
	for _, p := range pureExternalPrefixes {
		if strings.HasPrefix(full, p) {
			return true
		}
	}
	return false
}

// isPureCallSyntactic: does this call leave the caller-visible heap unchanged (used for loop framing).
func (e *Engine) isPureCallSyntactic(call *ast.CallExpr) bool {
	if tv, ok := e.pkg.info.Types[call.Fun]; ok && tv.IsType() {
		return true
	}
	if id, ok := call.Fun.(*ast.Ident); ok {
		if b, ok := e.pkg.info.Uses[id].(*types.Builtin); ok {
			switch b.Name() {
			case "len", "cap", "min", "max", "panic", "new", "make":
				return true
			}
			return false
		}
		if o := e.pkg.info.Uses[id]; o != nil && o.Pkg() == nil {
			return true // universe spec helper
		}
	}
	fn := e.calleeFunc(call)
	if fn == nil {
		return false
	}
	full := fn.FullName()
	if fc := e.prog.contracts[full]; fc != nil {
		return !fc.modAll && len(fc.modifies) == 0
	}
	if e.isDroppedCall(call) {
		return true
	}
	if strings.Contains(full, ".PutUint") {
		return false
	}
	if isPureExternalName(full) {
		return true
	}
	return false
}

func (e *Engine) evalArgs(st *State, call *ast.CallExpr, sig *types.Signature) []Value {
	var out []Value
	np := sig.Params().Len()
	if len(call.Args) == 1 && np > 1 {
		// f(g()) with multi-value g
		if tv, ok := e.eval(st, call.Args[0]).(TupleV); ok {
			return tv
		}
	}
	for i, a := range call.Args {
		var pt types.Type
		if sig.Variadic() && i >= np-1 {
			pt = sig.Params().At(np - 1).Type()
			if !call.Ellipsis.IsValid() {
				pt = pt.(*types.Slice).Elem()
			}
		} else if i < np {
			pt = sig.Params().At(i).Type()
		}
		if pt != nil {
			out = append(out, e.evalForType(st, a, pt))
		} else {
			out = append(out, e.eval(st, a))
		}
	}
	if sig.Variadic() && !call.Ellipsis.IsValid() {
		// pack the variadic tail into a slice
		fixed := np - 1
		tail := out[fixed:]
		elem := sig.Params().At(np - 1).Type().(*types.Slice).Elem()
		var sv Value
		if len(tail) == 0 {
			sv = SliceV{I(0), I(0), I(0), I(0)}
		} else {
			blk := e.allocBlock(st, 1)
			st.Mem = e.name("Mem", Sto(st.Mem, blk, T{"((as const (Array Int Int)) 0)", SArr}))
			for i, v := range tail {
				if isScalarElem(elem) {
					e.storeElem(st, blk, I(int64(i)), elem, v)
				} else {
					a := e.allocBlock(st, e.cells(elem))
					e.storeAt(st, a, elem, v)
					st.Mem = e.name("Mem", Sto(st.Mem, blk, Sto(Sel(st.Mem, blk), I(int64(i)), a)))
				}
			}
			sv = SliceV{blk, I(0), I(int64(len(tail))), I(int64(len(tail)))}
		}
		out = append(out[:fixed:fixed], sv)
	}
	return out
}

func (e *Engine) evalCall(st *State, call *ast.CallExpr) Value {
	// conversion
	if tv, ok := e.pkg.info.Types[call.Fun]; ok && tv.IsType() {
		return e.evalConversion(st, call, tv.Type)
	}
	// builtins and universe helpers
	funX := call.Fun
	for {
		if p, ok := funX.(*ast.ParenExpr); ok {
			funX = p.X
			continue
		}
		break
	}
	if ix, ok := funX.(*ast.IndexExpr); ok {
		// explicit instantiation of a universe generic: ghostOf[T](...)
		if id, ok := ix.X.(*ast.Ident); ok && id.Name == "ghostOf" {
			if f, ok := e.pkg.info.Uses[id].(*types.Func); ok && f.Pkg() == nil {
				return e.evalGhostOf(st, call)
			}
		}
		if id, ok := ix.X.(*ast.Ident); ok && id.Name == "valAt" {
			if f, ok := e.pkg.info.Uses[id].(*types.Func); ok && f.Pkg() == nil {
				m := e.eval(st, call.Args[0])
				k := e.mapKey(st, e.eval(st, call.Args[1]), call.Args[1])
				return e.cellToValue(st, e.mapCell(st, m, k), e.typeOf(ix.Index))
			}
		}
		if id, ok := ix.X.(*ast.Ident); ok && id.Name == "isType" {
			if f, ok := e.pkg.info.Uses[id].(*types.Func); ok && f.Pkg() == nil {
				iv, ok := e.eval(st, call.Args[0]).(IfaceV)
				if !ok {
					e.fail(call, "isType on a non-interface value")
				}
				return BoolV{And(Ne(iv.ref, I(0)), Eq(iv.tag, e.typeID(e.typeOf(ix.Index))))}
			}
		}
	}
	if id, ok := funX.(*ast.Ident); ok {
		switch o := e.pkg.info.Uses[id].(type) {
		case *types.Builtin:
			return e.evalBuiltin(st, call, o.Name())
		case *types.Func:
			if o.Pkg() == nil {
				return e.evalSpecHelper(st, call, o.Name())
			}
		}
	}
	if e.isDroppedCall(call) {
		return TupleV{}
	}
	fn := e.calleeFunc(call)
	if fn == nil {
		// call of a function value
		fv := e.eval(st, call.Fun)
		if f, ok := fv.(FuncV); ok && f.lit != nil {
			sig := e.typeOf(call.Fun).Underlying().(*types.Signature)
			args := e.evalArgs(st, call, sig)
			if f.pkg != nil && f.pkg != e.pkg {
				save := e.pkg
				e.pkg = f.pkg
				defer func() { e.pkg = save }()
			}
			return e.inlineLit(st, f.lit, args, call)
		}
		if f, ok := fv.(FuncV); ok && f.fn != nil {
			sig := f.fn.Type().(*types.Signature)
			args := e.evalArgs(st, call, sig)
			if f.recv != nil {
				args = append([]Value{f.recv}, args...)
			}
			return e.dispatch(st, f.fn, args, call, sig)
		}
		sig, _ := e.typeOf(call.Fun).Underlying().(*types.Signature)
		if sig == nil {
			e.fail(call, "call of unknown function value")
		}
		cbArgs := e.evalArgs(st, call, sig)
		if id, ok := funX.(*ast.Ident); ok && e.fc != nil && e.fc.cbObserves[id.Name] != "" {
			gname := "gh_" + sanitize(e.fc.cbObserves[id.Name])
			var argTs []T
			for i, a := range call.Args {
				if i < len(cbArgs) {
					if sv, isSlice := cbArgs[i].(SliceV); isSlice && isByteLike(under(e.typeOf(a)).(*types.Slice).Elem()) {
						argTs = append(argTs, e.strOf(st, Sel(st.Mem, sv.blk), sv.off, sv.ln))
						continue
					}
					argTs = append(argTs, e.ghostCells(st, cbArgs[i], e.typeOf(a))...)
				}
			}
			rsort, rs := "Int", SInt
			if sig.Results().Len() > 0 {
				if b, ok := under(sig.Results().At(0).Type()).(*types.Basic); ok && b.Info()&types.IsBoolean != 0 {
					rsort, rs = "Bool", SBool
				}
			}
			e.declareUF(gname, fmt.Sprintf("(declare-fun %s (%s) %s)", gname, strings.TrimSpace(strings.Repeat("Int ", len(argTs))), rsort))
			e.noteAssumption("callback " + id.Name + ": side-effect free, first result = ghost observer " + e.fc.cbObserves[id.Name] + " of its arguments (assumed of the function values passed by callers)")
			r := e.havocCall(st, "function value "+e.slug(call.Fun), sig, call, false)
			obs := app(rs, gname, argTs...)
			first := r
			if tv, ok := r.(TupleV); ok && len(tv) > 0 {
				first = tv[0]
			}
			switch x := first.(type) {
			case BoolV:
				e.assume(st, Eq(B2I(x.t), B2I(obs)), "callback result is the ghost observer of its arguments")
			case IntV:
				e.assume(st, Eq(x.t, obs), "callback result is the ghost observer of its arguments")
			}
			return r
		}
		// callback parameter with a `preserves` assumption
		var keep []*Clause
		if id, ok := funX.(*ast.Ident); ok && e.fc != nil {
			for _, cb := range e.fc.callbacks {
				if cb.label == id.Name {
					keep = append(keep, cb)
				}
			}
		}
		var before []Value
		for _, cb := range keep {
			cb.fired++
			before = append(before, e.evalClauseValue(st, cb))
		}
		r := e.havocCall(st, "function value "+e.slug(call.Fun), sig, call, true)
		for i, cb := range keep {
			after := e.evalClauseValue(st, cb)
			e.assume(st, e.valuesEqual(st, before[i], after, cb.info.TypeOf(cb.expr), call), "callback preserves "+cb.text+" (assumed; callers must establish it)")
			e.noteAssumption("callback " + cb.label + " preserves " + cb.text)
		}
		return r
	}
	sig := fn.Type().(*types.Signature)
	var args []Value
	if sig.Recv() != nil {
		sel, ok := funX.(*ast.SelectorExpr)
		if !ok {
			e.fail(call, "method call without selector")
		}
		recv := e.evalReceiver(st, sel, fn)
		args = append(args, recv)
	}
	args = append(args, e.evalArgs(st, call, sig)...)
	return e.dispatch(st, fn, args, call, sig)
}

// evalReceiver evaluates the receiver operand, taking its address / dereferencing as the method requires.
func (e *Engine) evalReceiver(st *State, sel *ast.SelectorExpr, fn *types.Func) Value {
	sig := fn.Type().(*types.Signature)
	recvT := sig.Recv().Type()
	selection := e.pkg.info.Selections[sel]
	xt := e.typeOf(sel.X)
	if _, isIface := under(recvT).(*types.Interface); isIface {
		return e.eval(st, sel.X)
	}
	// walk embedded fields (implicit selections) up to the receiver
	p := e.placeOf(st, sel.X)
	if selection != nil {
		idx := selection.Index()
		for _, i := range idx[:len(idx)-1] {
			p = e.stepField(st, p, i, sel)
		}
		xt = p.typ
	}
	_, wantPtr := under(recvT).(*types.Pointer)
	_, havePtr := under(xt).(*types.Pointer)
	switch {
	case wantPtr && havePtr:
		return e.loadPlace(st, p)
	case wantPtr && !havePtr:
		if p.isAddr {
			return RefV{p.addr}
		}
		if av, ok := p.val.(ArrV); ok {
			return RefV{av.blk}
		}
		// detached value: materialise a temporary (mutations through the pointer receiver are lost)
		a := e.allocBlock(st, e.cells(xt))
		e.storeAt(st, a, xt, p.val)
		e.abstract("pointer-receiver call on a non-addressable value (temporary copy)")
		return RefV{a}
	case !wantPtr && havePtr:
		ref := e.asInt(e.loadPlace(st, p), sel)
		e.oblige(st, "nil", e.slug(sel.X), Ne(ref, I(0)), sel.Pos(), nil)
		return e.loadAt(st, ref, recvT)
	default:
		return e.loadPlace(st, p)
	}
}

// dispatch picks how a statically known callee is handled.
func (e *Engine) dispatch(st *State, fn *types.Func, args []Value, call *ast.CallExpr, sig *types.Signature) Value {
	full := fn.FullName()
	if v, ok := e.externalModel(st, full, fn, args, call, sig); ok {
		return v
	}
	if e.fc != nil && len(e.fc.expand) > 0 && len(e.inlineStack) < 4 {
		for _, x := range e.fc.expand {
			if fi := e.prog.funcs[full]; fi != nil && fi.decl.Body != nil && (full == x || strings.HasSuffix(full, "/"+x) || strings.HasSuffix(full, "."+x)) {
				return e.inlineFunc(st, fi, args, call)
			}
		}
	}
	ignored := false
	if e.fc != nil {
		for _, x := range e.fc.ignore {
			if full == x || strings.HasSuffix(full, "/"+x) || strings.HasSuffix(full, "."+x) || strings.HasSuffix(full, ")."+x) {
				ignored = true
				e.noteAssumption("contract not used at this call (ignore clause): " + full)
			}
		}
	}
	if e.fc != nil {
		for _, x := range e.fc.opaque {
			if full == x || strings.HasSuffix(full, "/"+x) || strings.HasSuffix(full, "."+x) || strings.HasSuffix(full, ")."+x) {
				e.noteAssumption("call treated as unknown code (opaque clause): " + full)
				return e.havocCall(st, full, sig, call, true)
			}
		}
		for _, x := range e.fc.dbonly {
			if full == x || strings.HasSuffix(full, "/"+x) || strings.HasSuffix(full, "."+x) || strings.HasSuffix(full, ")."+x) {
				return e.mapsOnlyCall(st, full, sig, call)
			}
		}
	}
	if e.fc != nil && len(e.fc.only) > 0 && !ignored {
		keep := false
		for _, x := range e.fc.only {
			if full == x || strings.HasSuffix(full, "/"+x) || strings.HasSuffix(full, "."+x) || strings.HasSuffix(full, ")."+x) {
				keep = true
			}
		}
		if c := e.prog.contracts[full]; !keep && c != nil && !c.inline && !c.standalone {
			ignored = true
			e.noteAssumption("contract not used at this call (only clause): " + full)
		}
	}
	if fc := e.prog.contracts[full]; fc != nil && !fc.inline && !ignored && !fc.standalone {
		return e.callContract(st, fc, args, call)
	}
	if fi := e.prog.funcs[full]; fi != nil && fi.decl.Body != nil {
		fc := e.prog.contracts[full]
		inRepo := strings.HasPrefix(fn.Pkg().Path(), repoModule)
		if fc != nil && fc.inline && !inRepo {
			e.noteAssumption("dependency function expanded from its source in the module cache: " + full)
		}
		if (fc != nil && fc.inline) || inRepo && e.inlinable(fi) {
			return e.inlineFunc(st, fi, args, call)
		}
	}
	pure := isPureExternalName(full)
	return e.havocCall(st, full, sig, call, !pure)
}

func (e *Engine) inlinable(fi *FuncInfo) bool {
	if len(e.inlineStack) >= 4 {
		return false
	}
	for _, s := range e.inlineStack {
		if s == fi.fn.FullName() {
			return false
		}
	}
	if strings.HasSuffix(e.prog.fset.Position(fi.decl.Pos()).Filename, "_verif.go") {
		return true // spec functions are always expanded
	}
	n := 0
	ok := true
	ast.Inspect(fi.decl.Body, func(nd ast.Node) bool {
		switch nd.(type) {
		case *ast.ForStmt, *ast.RangeStmt, *ast.GoStmt, *ast.SelectStmt, *ast.DeferStmt, *ast.FuncLit:
			ok = false
		case ast.Stmt:
			n++
		}
		return ok
	})
	return ok && n <= 12
}

func (e *Engine) inlineFunc(st *State, fi *FuncInfo, args []Value, call *ast.CallExpr) Value {
	sig := fi.fn.Type().(*types.Signature)
	savePkg := e.pkg
	e.pkg = &pkgCtx{info: fi.pkg.TypesInfo, pkg: fi.pkg.Types}
	e.inlineStack = append(e.inlineStack, fi.fn.FullName())
	defer func() {
		e.pkg = savePkg
		e.inlineStack = e.inlineStack[:len(e.inlineStack)-1]
	}()
	e.computeEscaping(fi.decl.Body)
	i := 0
	if sig.Recv() != nil {
		e.declare(st, sig.Recv(), args[0])
		i = 1
	}
	for k := 0; k < sig.Params().Len(); k++ {
		e.declare(st, sig.Params().At(k), args[i+k])
	}
	var results []*types.Var
	for k := 0; k < sig.Results().Len(); k++ {
		r := sig.Results().At(k)
		results = append(results, r)
		if r.Name() != "" && r.Name() != "_" {
			e.declare(st, r, e.zero(st, r.Type()))
		}
	}
	cx := &Ctx{results: results, loopOrd: map[ast.Stmt]int{}, closureOrd: map[*ast.FuncLit]int{}}
	if fc := e.prog.contracts[fi.fn.FullName()]; fc != nil {
		cx.fnContract = fc
		for i, l := range loopsOf(fi.decl.Body) {
			cx.loopOrd[l] = i + 1
		}
	}
	e.noteInlined(fi.fn.FullName())
	out := e.execBlock(st, fi.decl.Body.List, cx)
	if out != nil {
		if len(results) > 0 {
			// fell off the end with named results
			var vals []Value
			for _, r := range results {
				v, _ := e.lookupVar(out, r)
				vals = append(vals, e.deLoc(out, v, r.Type()))
			}
			cx.returns = append(cx.returns, &retState{st: out, vals: vals, nd: -1})
		} else {
			cx.returns = append(cx.returns, &retState{st: out, nd: -1})
		}
	}
	return e.joinReturns(st, cx, len(results), call)
}

func (e *Engine) noteInlined(name string) {
	e.noteAssumption("inlined (verified as part of the caller): " + name)
}

// joinReturns merges the return states of an inlined body back into st.
func (e *Engine) joinReturns(st *State, cx *Ctx, nres int, call ast.Node) Value {
	deadResult := func() Value {
		st.pc = tFalse
		var vals TupleV
		for _, r := range cx.results {
			vals = append(vals, e.zero(st, r.Type()))
		}
		if len(vals) == 1 {
			return vals[0]
		}
		return vals
	}
	if len(cx.returns) == 0 {
		// callee never returns normally
		return deadResult()
	}
	// run defers on each return state
	for _, r := range cx.returns {
		nd := len(cx.defers)
		if r.nd >= 0 && r.nd < nd {
			nd = r.nd
		}
		for i := nd - 1; i >= 0; i-- {
			e.execStmt(r.st, cx.defers[i], &Ctx{results: cx.results})
		}
	}
	var states []*State
	for _, r := range cx.returns {
		tmp := types.NewVar(token.NoPos, nil, "ret", nil)
		_ = tmp
		states = append(states, r.st)
	}
	// attach return values as pseudo-variables so merge handles them
	retObjs := make([]*types.Var, nres)
	for i := range retObjs {
		retObjs[i] = types.NewVar(token.NoPos, nil, fmt.Sprintf("ret%d", i), types.Typ[types.Int])
	}
	for _, r := range cx.returns {
		for i := 0; i < nres; i++ {
			r.st.vars[retObjs[i]] = r.vals[i]
		}
	}
	m := e.merge(states)
	if m == nil {
		return deadResult()
	}
	var vals TupleV
	for i := 0; i < nres; i++ {
		vals = append(vals, m.vars[retObjs[i]])
		delete(m.vars, retObjs[i])
	}
	*st = *m
	if nres == 1 {
		return vals[0]
	}
	return vals
}

func (e *Engine) inlineLit(st *State, lit *ast.FuncLit, args []Value, call ast.Node) Value {
	sig := e.pkg.info.TypeOf(lit).(*types.Signature)
	e.computeEscaping(lit.Body)
	for k := 0; k < sig.Params().Len(); k++ {
		e.declare(st, sig.Params().At(k), args[k])
	}
	var results []*types.Var
	for k := 0; k < sig.Results().Len(); k++ {
		r := sig.Results().At(k)
		results = append(results, r)
		if r.Name() != "" && r.Name() != "_" {
			e.declare(st, r, e.zero(st, r.Type()))
		}
	}
	cx := &Ctx{results: results, loopOrd: map[ast.Stmt]int{}, closureOrd: map[*ast.FuncLit]int{}}
	// loops inside a closure use the closure's contract when one is bound
	if e.fc != nil {
		for ord, cfc := range e.fc.closures {
			if cfc.lit == lit {
				_ = ord
				cx.fnContract = cfc
				for i, l := range loopsOf(lit.Body) {
					cx.loopOrd[l] = i + 1
				}
			}
		}
	}
	out := e.execBlock(st, lit.Body.List, cx)
	if out != nil {
		var vals []Value
		for _, r := range results {
			v, _ := e.lookupVar(out, r)
			vals = append(vals, e.deLoc(out, v, r.Type()))
		}
		cx.returns = append(cx.returns, &retState{st: out, vals: vals, nd: -1})
	}
	return e.joinReturns(st, cx, len(results), call)
}

// havocCall: unknown callee. Results are arbitrary well-typed values; if impure, the heap is forgotten.
func (e *Engine) havocCall(st *State, name string, sig *types.Signature, call *ast.CallExpr, impure bool) Value {
	if e.specMode > 0 {
		e.fail(call, "call of %s in a contract expression (no contract / not a spec function)", name)
	}
	if impure {
		e.noteAssumption("call without contract treated as havoc (results arbitrary, heap forgotten): " + name)
		if e.frame != nil && !e.frame.all {
			e.oblige(st, "frame", "call of "+shortName(name)+" (no contract: may modify anything) stays within the modifies frame", tFalse, call.Pos(), nil)
		}
		e.havocHeap(st, "call")
	} else {
		e.noteAssumption("external call treated as side-effect free with arbitrary result: " + name)
	}
	if !impure {
		na := e.fresh("alloc_call", SInt)
		e.assume(st, Ge(na, st.alloc), "allocation pointer is monotone")
		st.alloc = na
	}
	var vals TupleV
	for i := 0; i < sig.Results().Len(); i++ {
		vals = append(vals, e.symbolic(st, "r_"+sanitize(shortName(name)), sig.Results().At(i).Type()))
	}
	if len(vals) == 1 {
		return vals[0]
	}
	return vals
}

// mapsOnlyCall: callee named in a `dbonly` clause -- assumed to change database buckets and Go maps only.
func (e *Engine) mapsOnlyCall(st *State, name string, sig *types.Signature, call *ast.CallExpr) Value {
	if e.specMode > 0 {
		e.fail(call, "call of %s in a contract expression", name)
	}
	e.noteAssumption("effects of " + name + " assumed limited to database buckets and Go maps, results arbitrary (dbonly clause)")
	if e.frame != nil && !e.frame.all {
		e.oblige(st, "frame", "call of "+shortName(name)+" (dbonly: may modify any bucket or map) stays within the modifies frame", tFalse, call.Pos(), nil)
	}
	oldMapV, hadMapV := st.ghost["MapV"]
	for _, k := range sortedTKeys(st.ghost) {
		st.ghost[k] = e.fresh("g_"+k+"_dbonly", st.ghost[k].sort)
	}
	if hadMapV {
		// a tally ghost (gmap("tally...")) counts calls of the contract that names it and is written by no code; the
		// callees listed under dbonly are assumed not to reach that function (part of the dbonly assumption)
		for _, tn := range e.prog.tallyMaps() {
			gname := "gm_" + sanitize(tn)
			e.declareUF(gname, fmt.Sprintf("(declare-fun %s () Int)", gname))
			e.ghostMapAxiom(gname, 0)
			ref := T{gname, SInt}
			e.assume(st, Eq(Sel(st.ghost["MapV"], ref), Sel(oldMapV, ref)), "tally ghost kept by a dbonly call")
		}
	}
	na := e.fresh("alloc_call", SInt)
	e.assume(st, Ge(na, st.alloc), "allocation pointer is monotone")
	st.alloc = na
	var vals TupleV
	for i := 0; i < sig.Results().Len(); i++ {
		vals = append(vals, e.symbolic(st, "r_"+sanitize(shortName(name)), sig.Results().At(i).Type()))
	}
	if len(vals) == 1 {
		return vals[0]
	}
	return vals
}

var tallyRe = regexp.MustCompile(`"(tally[A-Za-z0-9_]*)"`)

// tallyMaps: the names of the tally ghost maps mentioned in any contract clause of the program.
func (p *Program) tallyMaps() []string {
	if p.tallies != nil {
		return *p.tallies
	}
	seen := map[string]bool{}
	var out []string
	add := func(text string) {
		for _, m := range tallyRe.FindAllStringSubmatch(text, -1) {
			if !seen[m[1]] {
				seen[m[1]] = true
				out = append(out, m[1])
			}
		}
	}
	for _, fc := range p.contracts {
		for _, c := range fc.ensures {
			add(c.text)
		}
		for _, c := range fc.requires {
			add(c.text)
		}
		for _, as := range fc.asserts {
			for _, a := range as {
				add(a.text)
			}
		}
	}
	sort.Strings(out)
	p.tallies = &out
	return out
}

func shortName(full string) string {
	if i := strings.LastIndex(full, "/"); i >= 0 {
		full = full[i+1:]
	}
	return full
}

// ---------------------------------------------------------------------------------------
// Conversions and builtins.

func (e *Engine) evalConversion(st *State, call *ast.CallExpr, to types.Type) Value {
	arg := call.Args[0]
	from := e.typeOf(arg)
	v := e.eval(st, arg)
	switch tu := under(to).(type) {
	case *types.Basic:
		switch {
		case tu.Info()&types.IsInteger != 0:
			if fb, ok := under(from).(*types.Basic); ok && fb.Info()&types.IsInteger != 0 {
				return IntV{e.wrap(e.asInt(v, arg), to)}
			}
			if fb, ok := under(from).(*types.Basic); ok && fb.Info()&types.IsFloat != 0 {
				e.abstract("float to integer conversion")
				r := e.fresh("f2i", SInt)
				e.assume(st, rangeFact(r, to), "type range")
				return IntV{r}
			}
		case tu.Info()&types.IsString != 0:
			switch fv := v.(type) {
			case SliceV:
				return StrV{e.strOf(st, Sel(st.Mem, fv.blk), fv.off, fv.ln)}
			case StrV:
				return fv
			case IntV:
				e.abstract("integer to string conversion")
				return e.symbolic(st, "i2s", to)
			}
		case tu.Info()&types.IsFloat != 0:
			e.abstract("conversion to float")
			return IntV{e.fresh("flt", SInt)}
		case tu.Info()&types.IsBoolean != 0:
			return v
		}
	case *types.Slice:
		if sv, ok := v.(StrV); ok {
			blk := e.allocBlock(st, 1)
			st.Mem = e.name("Mem", Sto(st.Mem, blk, e.sarr(sv.t)))
			n := e.name("n", e.slen(sv.t))
			return SliceV{blk, I(0), n, n}
		}
		return v
	case *types.Interface:
		return e.convertAssign(st, v, from, to, call)
	default:
		return v
	}
	e.fail(call, "unsupported conversion %s -> %s", from, to)
	return nil
}

func (e *Engine) evalBuiltin(st *State, call *ast.CallExpr, name string) Value {
	switch name {
	case "len", "cap":
		t := e.typeOf(call.Args[0])
		switch u := under(t).(type) {
		case *types.Array:
			return IntV{I(u.Len())}
		case *types.Pointer:
			if at, ok := under(u.Elem()).(*types.Array); ok {
				return IntV{I(at.Len())}
			}
		case *types.Map:
			m := e.eval(st, call.Args[0])
			return IntV{e.mapLen(st, m)}
		}
		v := e.eval(st, call.Args[0])
		switch x := v.(type) {
		case SliceV:
			if name == "len" {
				return IntV{x.ln}
			}
			return IntV{x.cp}
		case StrV:
			return IntV{e.slen(x.t)}
		}
		e.fail(call, "len/cap of %T", v)
	case "make":
		t := e.typeOf(call)
		switch u := under(t).(type) {
		case *types.Slice:
			n := e.asInt(e.eval(st, call.Args[1]), call.Args[1])
			c := n
			if len(call.Args) > 2 {
				c = e.asInt(e.eval(st, call.Args[2]), call.Args[2])
			}
			e.oblige(st, "make", e.slug(call), And(Le(I(0), n), Le(n, c), Le(c, I(1<<44))), call.Pos(), nil)
			blk := e.allocBlock(st, 1)
			if isScalarElem(u.Elem()) {
				st.Mem = e.name("Mem", Sto(st.Mem, blk, T{"((as const (Array Int Int)) 0)", SArr}))
			} else if nv, ok := constInt(n); !ok || nv != 0 {
				e.abstract("make of slice with aggregate elements and non-zero length: elements arbitrary")
			}
			return SliceV{blk, I(0), n, c}
		case *types.Map:
			m := e.newMap(st)
			e.mapTyped(st, m.(RefV).t, t)
			return m
		case *types.Chan:
			e.fail(call, "channels are outside the subset")
		}
	case "new":
		t := e.typeOf(call.Args[0])
		a := e.allocBlock(st, e.cells(t))
		e.storeAt(st, a, t, e.zero(st, t))
		return RefV{a}
	case "copy":
		dst := e.eval(st, call.Args[0]).(SliceV)
		srcV := e.eval(st, call.Args[1])
		var srcArr, soff, sln T
		switch s := srcV.(type) {
		case SliceV:
			srcArr, soff, sln = Sel(st.Mem, s.blk), s.off, s.ln
		case StrV:
			srcArr, soff, sln = e.sarr(s.t), I(0), e.slen(s.t)
		default:
			e.fail(call, "copy from %T", srcV)
		}
		n := e.name("n", Ite(Le(dst.ln, sln), dst.ln, sln))
		elem := under(e.typeOf(call.Args[0])).(*types.Slice).Elem()
		if !isScalarElem(elem) {
			e.abstract("copy of slices with aggregate elements (element references shared)")
		}
		// guard writes to block 0 (nil slice has length 0, so n == 0)
		newArr := e.arrCopy(Sel(st.Mem, dst.blk), dst.off, srcArr, soff, n)
		e.memWrite(st, dst.blk, newArr, "the destination of copy")
		return IntV{n}
	case "append":
		return e.evalAppend(st, call)
	case "delete":
		m := e.eval(st, call.Args[0])
		k := e.eval(st, call.Args[1])
		e.mapDelete(st, m, k, under(e.typeOf(call.Args[0])).(*types.Map).Key())
		return TupleV{}
	case "panic":
		for _, a := range call.Args {
			e.eval(st, a)
		}
		e.oblige(st, "panic", e.slug(call), tFalse, call.Pos(), nil)
		return TupleV{}
	case "print", "println":
		return TupleV{}
	case "min", "max":
		a := e.asInt(e.eval(st, call.Args[0]), call)
		for _, x := range call.Args[1:] {
			b := e.asInt(e.eval(st, x), call)
			if name == "min" {
				a = Ite(Le(a, b), a, b)
			} else {
				a = Ite(Ge(a, b), a, b)
			}
		}
		return IntV{a}
	case "recover":
		e.abstract("recover() not modelled")
		return IfaceV{I(0), I(0)}
	}
	e.fail(call, "unsupported builtin %s", name)
	return nil
}

func (e *Engine) evalAppend(st *State, call *ast.CallExpr) Value {
	st0 := e.typeOf(call.Args[0])
	elem := under(st0).(*types.Slice).Elem()
	s := e.eval(st, call.Args[0]).(SliceV)
	if len(call.Args) == 1 {
		return s
	}
	var n T
	var srcArr, soff T
	if call.Ellipsis.IsValid() {
		switch src := e.eval(st, call.Args[1]).(type) {
		case SliceV:
			n, srcArr, soff = src.ln, Sel(st.Mem, src.blk), src.off
		case StrV:
			n, srcArr, soff = e.slen(src.t), e.sarr(src.t), I(0)
		}
	} else {
		// build a temporary array with the appended elements
		cnt := len(call.Args) - 1
		tmp := T{"((as const (Array Int Int)) 0)", SArr}
		for i, a := range call.Args[1:] {
			v := e.evalForType(st, a, elem)
			var c T
			if isScalarElem(elem) {
				switch x := v.(type) {
				case BoolV:
					c = B2I(x.t)
				default:
					c = e.asInt(v, a)
				}
			} else {
				addr := e.allocBlock(st, e.cells(elem))
				e.storeAt(st, addr, elem, v)
				c = addr
			}
			tmp = Sto(tmp, I(int64(i)), c)
		}
		n, srcArr, soff = I(int64(cnt)), tmp, I(0)
	}
	n = e.name("n", n)
	newLen := e.name("len", Add(s.ln, n))
	fits := e.name("fits", Le(newLen, s.cp))
	newBlk := e.allocBlock(st, 1)
	newCap := e.fresh("newcap", SInt)
	e.assume(st, And(Ge(newCap, newLen), Le(newCap, I(1<<41))), "append growth")
	// in-place variant
	inPlace := e.arrCopy(Sel(st.Mem, s.blk), Add(s.off, s.ln), srcArr, soff, n)
	// reallocating variant: old contents moved to offset 0, then the new elements
	moved := e.arrCopy(T{"((as const (Array Int Int)) 0)", SArr}, I(0), Sel(st.Mem, s.blk), s.off, s.ln)
	grown := e.arrCopy(moved, s.ln, srcArr, soff, n)
	if e.specMode == 0 {
		if g := e.frameAllowsBlk(s.blk); g.s != "true" {
			e.oblige(st, "frame", "in-place append stays within the modifies frame", Implies(And(fits, Gt(n, I(0))), g), call.Pos(), nil)
		}
	}
	mem := Ite(fits, Sto(st.Mem, s.blk, inPlace), Sto(st.Mem, newBlk, grown))
	st.Mem = e.name("Mem", mem)
	return SliceV{e.name("blk", Ite(fits, s.blk, newBlk)), e.name("off", Ite(fits, s.off, I(0))), newLen, e.name("cap", Ite(fits, s.cp, newCap))}
}

// ---------------------------------------------------------------------------------------
// Contract calls.

// resultTypes lists the result types of the function a contract is bound to.
func (e *Engine) resultTypes(fc *FuncContract) []types.Type {
	var sig *types.Signature
	if fc.lit != nil {
		sig = fc.pkg.TypesInfo.TypeOf(fc.lit).(*types.Signature)
	} else {
		sig = fc.fn.Type().(*types.Signature)
	}
	var out []types.Type
	for i := 0; i < sig.Results().Len(); i++ {
		out = append(out, sig.Results().At(i).Type())
	}
	return out
}

func bindResults(fc *FuncContract, env map[types.Object]Value, vals []Value) {
	for _, a := range fc.resAlias {
		if a.idx < len(vals) {
			env[a.obj] = vals[a.idx]
		}
	}
}

func (e *Engine) paramObjects(fc *FuncContract) []*types.Var {
	if fc.ext {
		return fc.extParams
	}
	var sig *types.Signature
	if fc.lit != nil {
		sig = fc.pkg.TypesInfo.TypeOf(fc.lit).(*types.Signature)
	} else {
		sig = fc.fn.Type().(*types.Signature)
	}
	var out []*types.Var
	if sig.Recv() != nil {
		out = append(out, sig.Recv())
	}
	for i := 0; i < sig.Params().Len(); i++ {
		out = append(out, sig.Params().At(i))
	}
	return out
}

func (e *Engine) evalClauseValue(st *State, cl *Clause) Value {
	savePkg := e.pkg
	saveHoist := e.hoisted
	saveMemo := e.clauseMemo
	saveCS := e.clauseState
	e.clauseState = st
	defer func() { e.clauseState = saveCS }()
	e.hoisted = nil
	e.clauseMemo = map[string]Value{}
	e.pkg = &pkgCtx{info: cl.info, pkg: savePkg.pkg}
	e.specMode++
	defer func() {
		e.specMode--
		e.pkg = savePkg
		e.hoisted = saveHoist
		e.clauseMemo = saveMemo
	}()
	return e.eval(st, cl.expr)
}

func (e *Engine) evalClause(st *State, cl *Clause, env map[types.Object]Value) T {
	if env != nil {
		e.envStack = append(e.envStack, env)
		defer func() { e.envStack = e.envStack[:len(e.envStack)-1] }()
	}
	return e.asBool(e.evalClauseValue(st, cl), cl.expr)
}

func (e *Engine) callContract(st *State, fc *FuncContract, args []Value, call *ast.CallExpr) Value {
	params := e.paramObjects(fc)
	if len(params) != len(args) {
		e.fail(call, "contract call of %s: %d params vs %d args", fc.key, len(params), len(args))
	}
	env := map[types.Object]Value{}
	for i, p := range params {
		env[p] = args[i]
	}
	e.funcsUsed[fc.key] = true
	if e.quant > 0 {
		e.fail(call, "call of %s inside a quantifier body", fc.key)
	}
	if fc.trusted || fc.ext {
		e.noteAssumption("assumed contract (not verified here): " + fc.key)
	}
	if e.specMode == 0 {
		for _, req := range fc.requires {
			m := e.beginScope()
			tmp := st.clone()
			g := e.evalClause(tmp, req, env)
			req.fired++
			e.oblige(tmp, "pre", shortName(fc.key)+" requires "+req.text, g, call.Pos(), nil)
			if hasProp(req.ownProps, "panics") && len(e.obligs) > 0 {
				// a library precondition whose violation is a run-time panic: a counterexample can be replayed like a safety obligation
				e.obligs[len(e.obligs)-1].replayPanic = true
			}
			e.endScope(m)
			// the caller continues under the (now proved) precondition; re-evaluated as an assumption below
		}
		for _, req := range fc.requires {
			g := e.evalClause(st, req, env)
			e.assume(st, g, "precondition of "+shortName(fc.key)+" (proved at this call)")
		}
	}
	pre := st.clone()
	saveOld := e.oldState
	defer func() { e.oldState = saveOld }()
	if e.specMode == 0 {
		if fc.modAll {
			if e.frame != nil && !e.frame.all {
				e.oblige(st, "frame", "call of "+shortName(fc.key)+" (modifies *) stays within the modifies frame", tFalse, call.Pos(), nil)
			}
			e.havocHeap(st, "call")
		} else {
			// all targets are named in the pre-state, then forgotten
			var targets []modTarget
			for _, m := range fc.modifies {
				e.envStack = append(e.envStack, env)
				targets = append(targets, e.evalModTarget(st, m))
				e.envStack = e.envStack[:len(e.envStack)-1]
			}
			for i, m := range fc.modifies {
				e.havocModTarget(st, targets[i], m)
			}
		}
	}
	// the callee may allocate: the allocation pointer moves forward by an unknown amount
	{
		na := e.fresh("alloc_call", SInt)
		e.assume(st, Ge(na, st.alloc), "allocation pointer is monotone")
		st.alloc = na
	}
	var vals TupleV
	for _, rt := range e.resultTypes(fc) {
		v := e.symbolic(st, "r_"+sanitize(shortName(fc.key)), rt)
		vals = append(vals, v)
	}
	bindResults(fc, env, vals)
	e.oldState = pre
	for _, ens := range fc.ensures {
		g := e.evalClause(st, ens, env)
		if e.prog.knownPostFinding(fc.key, ens.text) {
			e.noteAssumption("assumed at a call although listed as a known finding of the callee: " + shortName(fc.key) + " ensures " + normalizeSlug(ens.text))
		}
		if ens.assume {
			e.noteAssumption("assume clause (a postcondition used at call sites but NOT proved in the callee's body): " + shortName(fc.key) + ": " + normalizeSlug(ens.text))
		}
		e.assume(st, g, "ensures of "+shortName(fc.key))
	}
	if len(vals) == 1 {
		return vals[0]
	}
	return vals
}

// havocTarget forgets the memory a modifies clause names: *p for pointers, the elements for slices.
// modTarget: what a modifies clause names.  `&x.f` names exactly the cells of field f (place-based, keeps the
// typed-heap key); a pointer names its pointee; a slice its elements; a map its entries.
type modTarget struct {
	val   Value
	typ   types.Type
	place *place // for &x.f
}

func (e *Engine) evalModTarget(st *State, m *Clause) modTarget {
	x := m.expr
	for {
		if p, ok := x.(*ast.ParenExpr); ok {
			x = p.X
			continue
		}
		break
	}
	if u, ok := x.(*ast.UnaryExpr); ok && u.Op == token.AND {
		savePkg := e.pkg
		e.pkg = &pkgCtx{info: m.info, pkg: savePkg.pkg}
		e.specMode++
		pl := e.placeOf(st, u.X)
		e.specMode--
		e.pkg = savePkg
		if pl.isAddr {
			return modTarget{place: &pl, typ: m.info.TypeOf(m.expr)}
		}
	}
	return modTarget{val: e.evalClauseValue(st, m), typ: m.info.TypeOf(m.expr)}
}

func (e *Engine) havocModTarget(st *State, mt modTarget, cl *Clause) {
	if mt.place != nil {
		key := mt.place.key
		if key == "" {
			key = scalarKey(mt.place.typ)
		}
		if _, isArr := under(mt.place.typ).(*types.Array); isArr {
			e.memWrite(st, mt.place.addr, e.fresh("havoc_arr", SArr), "a modifies target")
			return
		}
		e.havocCells(st, mt.place.addr, mt.place.typ, key)
		e.havocArrayFields(st, mt.place.addr, mt.place.typ)
		return
	}
	e.havocTarget(st, mt.val, mt.typ, cl)
}

func (e *Engine) havocTarget(st *State, v Value, t types.Type, cl *Clause) {
	switch x := v.(type) {
	case RefV:
		pt, ok := under(t).(*types.Pointer)
		if !ok {
			if _, isMap := under(t).(*types.Map); isMap {
				e.havocMap(st, x)
				return
			}
			e.fail(cl.expr, "modifies target of type %s", t)
		}
		n := e.cells(pt.Elem())
		if _, isArr := under(pt.Elem()).(*types.Array); isArr {
			e.memWrite(st, x.t, e.fresh("havoc_arr", SArr), "a modifies target")
			return
		}
		_ = n
		e.havocCells(st, x.t, pt.Elem(), scalarKey(pt.Elem()))
		// array-typed fields own blocks at their cell address
		e.havocArrayFields(st, x.t, pt.Elem())
	case SliceV:
		e.memWrite(st, x.blk, e.fresh("havoc_arr", SArr), "a modifies target")
	default:
		e.fail(cl.expr, "unsupported modifies target %T", v)
	}
}

// havocCells overwrites the scalar cells of an object of type t at base with arbitrary values.
func (e *Engine) havocCells(st *State, base T, t types.Type, key string) {
	switch u := under(t).(type) {
	case *types.Array:
		return
	case *types.Struct:
		off := 0
		sk := e.structKey(u, t)
		for i := 0; i < u.NumFields(); i++ {
			ft := u.Field(i).Type()
			e.havocCells(st, Add(base, I(int64(off))), ft, sk+"."+u.Field(i).Name())
			off += e.cells(ft)
		}
	default:
		e.checkCellWrite(st, base, "a modifies target")
		h := e.heapGet(st, key)
		for i := 0; i < e.cells(t); i++ {
			h = Sto(h, Add(base, I(int64(i))), e.fresh("hv", SInt))
		}
		e.heapSet(st, key, e.name("H", h))
	}
}

func (e *Engine) havocArrayFields(st *State, base T, t types.Type) {
	switch u := under(t).(type) {
	case *types.Array:
		e.memWrite(st, base, e.fresh("havoc_arr", SArr), "a modifies target")
	case *types.Struct:
		off := 0
		for i := 0; i < u.NumFields(); i++ {
			ft := u.Field(i).Type()
			e.havocArrayFields(st, Add(base, I(int64(off))), ft)
			off += e.cells(ft)
		}
	}
}

// ---------------------------------------------------------------------------------------
// Spec helpers (universe functions usable in contracts).

func (e *Engine) evalSpecHelper(st *State, call *ast.CallExpr, name string) Value {
	switch name {
	case "cur":
		if e.clauseState != nil {
			return e.eval(e.clauseState, call.Args[0])
		}
		return e.eval(st, call.Args[0])
	case "old":
		if e.oldState == nil {
			return e.eval(st, call.Args[0])
		}
		// evaluate in the pre-state; quantifier-bound variables stay visible through envStack
		return e.eval(e.oldState, call.Args[0])
	case "forall", "exists":
		lit, ok := call.Args[0].(*ast.FuncLit)
		if !ok {
			e.fail(call, "%s needs a function literal", name)
		}
		sig := e.pkg.info.TypeOf(lit).(*types.Signature)
		env := map[types.Object]Value{}
		var names []string
		var ranges []T
		// goal-directed instantiation (see Engine.skolemGoal): a positive forall of a goal is proved for fresh
		// constants; a positive forall of an assumption is instantiated at the constants chosen for the goal
		ground := false
		var consts []T
		if name == "forall" && e.pol > 0 && e.quant == 0 {
			if e.skolemGoal {
				ground = true
			} else if e.instWith != nil {
				consts, ground = e.instWith[lit]
			}
		}
		for i := 0; i < sig.Params().Len(); i++ {
			p := sig.Params().At(i)
			e.nsym++
			vn := fmt.Sprintf("%s!q%d", sanitize(p.Name()), e.nsym)
			if ground {
				if e.skolemGoal {
					c := e.fresh("sk_"+sanitize(p.Name()), SInt)
					consts = append(consts, c)
				}
				vn = consts[i].s
			}
			names = append(names, vn)
			vt := T{vn, SInt}
			if e.quantVars == nil {
				e.quantVars = map[types.Object]bool{}
			}
			if !ground {
				e.quantVars[p] = true
			}
			switch u := under(p.Type()).(type) {
			case *types.Basic:
				if u.Info()&types.IsString != 0 {
					env[p] = StrV{vt}
					ranges = append(ranges, Ge(e.slen(vt), I(0)))
				} else if u.Info()&types.IsInteger != 0 {
					env[p] = IntV{vt}
					ranges = append(ranges, rangeFact(vt, p.Type()))
				} else {
					e.fail(call, "quantified variable of type %s", p.Type())
				}
			default:
				e.fail(call, "quantified variable of type %s", p.Type())
			}
		}
		if len(lit.Body.List) != 1 {
			e.fail(call, "quantifier body must be a single return")
		}
		ret, ok := lit.Body.List[0].(*ast.ReturnStmt)
		if !ok || len(ret.Results) != 1 {
			e.fail(call, "quantifier body must be a single return")
		}
		if ground {
			if e.skolemGoal {
				e.skolemOf[lit] = consts
			}
			e.envStack = append(e.envStack, env)
			body := e.asBool(e.eval(st, ret.Results[0]), ret.Results[0])
			e.envStack = e.envStack[:len(e.envStack)-1]
			return BoolV{Implies(And(ranges...), body)}
		}
		e.hoistCalls(st, ret.Results[0], env)
		e.envStack = append(e.envStack, env)
		e.quant++
		e.quantSide = append(e.quantSide, nil)
		savePol := e.pol
		e.pol = 0
		body := e.asBool(e.eval(st, ret.Results[0]), ret.Results[0])
		e.pol = savePol
		side := e.quantSide[len(e.quantSide)-1]
		e.quantSide = e.quantSide[:len(e.quantSide)-1]
		e.quant--
		e.envStack = e.envStack[:len(e.envStack)-1]
		if len(side) > 0 {
			sf := Forall(names, Implies(And(ranges...), And(side...)))
			if e.quant > 0 && len(e.quantSide) > 0 {
				e.quantSide[len(e.quantSide)-1] = append(e.quantSide[len(e.quantSide)-1], sf)
			} else {
				e.assume(st, sf, "typed memory: facts about terms under a quantifier")
			}
		}
		if name == "forall" {
			return BoolV{Forall(names, Implies(And(ranges...), body))}
		}
		return BoolV{Exists(names, And(append(ranges, body)...))}
	case "fresh":
		v := e.eval(st, call.Args[0])
		base := st.alloc
		if e.oldState != nil {
			base = e.oldState.alloc
		}
		switch x := v.(type) {
		case SliceV:
			return BoolV{Ge(x.blk, base)}
		case RefV:
			return BoolV{Ge(x.t, base)}
		case IfaceV:
			return BoolV{Ge(x.ref, base)}
		}
		e.fail(call, "fresh of %T", v)
	case "loopfresh":
		if len(e.loopBounds) == 0 {
			e.fail(call, "loopfresh outside a loop contract")
		}
		base := e.loopBounds[len(e.loopBounds)-1]
		switch x := e.eval(st, call.Args[0]).(type) {
		case SliceV:
			return BoolV{Ge(x.blk, base)}
		case RefV:
			return BoolV{Ge(x.t, base)}
		case IfaceV:
			return BoolV{Ge(x.ref, base)}
		}
		e.fail(call, "loopfresh needs a slice, pointer or interface")
	case "sameSlice":
		a, aok := e.eval(st, call.Args[0]).(SliceV)
		b, bok := e.eval(st, call.Args[1]).(SliceV)
		if !aok || !bok {
			e.fail(call, "sameSlice needs slices")
		}
		return BoolV{And(Eq(a.blk, b.blk), Eq(a.off, b.off), Eq(a.ln, b.ln))}
	case "be16", "be32", "be64", "le16", "le32", "le64":
		bo := e.bytesOperand(st, call.Args[0])
		off := e.asInt(e.eval(st, call.Args[1]), call.Args[1])
		n := map[string]int{"16": 2, "32": 4, "64": 8}[name[2:]]
		return IntV{byteSum(bo.arr, Add(bo.off, off), n, name[0] == 'b')}
	case "mathint":
		return IntV{e.asInt(e.eval(st, call.Args[0]), call)}
	case "mathdiv":
		return IntV{Div(e.asInt(e.eval(st, call.Args[0]), call), e.asInt(e.eval(st, call.Args[1]), call))}
	case "mathmod":
		return IntV{Mod(e.asInt(e.eval(st, call.Args[0]), call), e.asInt(e.eval(st, call.Args[1]), call))}
	case "bytesEq":
		a := e.bytesOperand(st, call.Args[0])
		ao := e.asInt(e.eval(st, call.Args[1]), call)
		b := e.bytesOperand(st, call.Args[2])
		bo := e.asInt(e.eval(st, call.Args[3]), call)
		n := e.asInt(e.eval(st, call.Args[4]), call)
		return BoolV{e.arrayEq(st, a.arr, Add(a.off, ao), b.arr, Add(b.off, bo), n)}
	case "strOf":
		a := e.bytesOperand(st, call.Args[0])
		return StrV{e.strOf(st, a.arr, a.off, a.n)}
	case "isErr":
		iv, ok := e.eval(st, call.Args[0]).(IfaceV)
		if !ok {
			e.fail(call, "isErr needs an interface value")
		}
		return BoolV{Ne(iv.ref, I(0))}
	case "ghost", "ghostb", "ghostu64", "ghosts":
		cv := e.constOf(call.Args[0])
		if cv == nil {
			e.fail(call, "ghost needs a constant name")
		}
		gname := "gh_" + sanitize(strings.Trim(cv.ExactString(), "\""))
		var argTs []T
		for _, a := range call.Args[1:] {
			v := e.eval(st, a)
			argTs = append(argTs, e.ghostCells(st, v, e.typeOf(a))...)
		}
		sortS := "Int"
		rs := SInt
		if name == "ghostb" {
			sortS = "Bool"
			rs = SBool
		}
		decl := fmt.Sprintf("(declare-fun %s (%s) %s)", gname, strings.TrimSpace(strings.Repeat("Int ", len(argTs))), sortS)
		e.declareUF(gname, decl)
		if len(argTs) == 0 {
			if name == "ghostb" {
				return BoolV{T{gname, rs}}
			}
			return IntV{T{gname, rs}}
		}
		r := app(rs, gname, argTs...)
		if name == "ghostb" {
			return BoolV{r}
		}
		if name == "ghosts" {
			e.ghostRangeAxiom(gname, len(argTs), "str")
			return StrV{r}
		}
		if name == "ghostu64" {
			e.ghostRangeAxiom(gname, len(argTs), "u64")
		}
		return IntV{r}
	case "unchanged":
		// unchanged(x): value of x equals old(x) (for byte slices: same contents)
		cur := e.eval(st, call.Args[0])
		oldSt := e.oldState
		if oldSt == nil {
			return BoolV{tTrue}
		}
		prev := e.eval(oldSt, call.Args[0])
		switch c := cur.(type) {
		case SliceV:
			p := prev.(SliceV)
			return BoolV{And(Eq(c.blk, p.blk), Eq(c.off, p.off), Eq(c.ln, p.ln),
				e.arrayEq(st, Sel(st.Mem, c.blk), c.off, Sel(oldSt.Mem, p.blk), p.off, c.ln))}
		default:
			return BoolV{e.valuesEqual(st, cur, prev, e.typeOf(call.Args[0]), call)}
		}
	case "pure":
		return e.eval(st, call.Args[0])
	case "decval":
		return IntV{e.decval(st, e.asInt(e.eval(st, call.Args[0]), call))}
	case "alldigits":
		return BoolV{e.isDigits(st, e.asInt(e.eval(st, call.Args[0]), call))}
	case "pow10":
		return IntV{e.pow10(e.asInt(e.eval(st, call.Args[0]), call))}
	case "sbyteAt":
		bo := e.bytesOperand(st, call.Args[0])
		i := e.asInt(e.eval(st, call.Args[1]), call)
		return IntV{Sel(bo.arr, Add(bo.off, i))}
	case "visited":
		if len(e.visStack) == 0 {
			e.fail(call, "visited() outside a map range loop")
		}
		k := e.mapKey(st, e.eval(st, call.Args[0]), call.Args[0])
		return BoolV{Eq(Sel(e.visStack[len(e.visStack)-1], k), I(1))}
	case "hasPrefix":
		x := e.bytesOperand(st, call.Args[0])
		p := e.bytesOperand(st, call.Args[1])
		return BoolV{And(Ge(x.n, p.n), e.arrayEq(st, x.arr, x.off, p.arr, p.off, p.n))}
	case "lexLess":
		x := e.bytesOperand(st, call.Args[0])
		y := e.bytesOperand(st, call.Args[1])
		return BoolV{e.lexLess(x, y)}
	case "gget", "ggets", "gsame", "gsameExcept":
		cv := e.constOf(call.Args[0])
		if cv == nil {
			e.fail(call, "%s needs a constant name", name)
		}
		gname := "gm_" + sanitize(strings.Trim(cv.ExactString(), "\""))
		e.declareUF(gname, fmt.Sprintf("(declare-fun %s () Int)", gname))
		e.ghostMapAxiom(gname, 0)
		ref := T{gname, SInt}
		e.ensureMapHeaps(st)
		keyOf := func(a ast.Expr) T {
			v := e.eval(st, a)
			return e.flatten(st, v, e.typeOf(a))[0]
		}
		switch name {
		case "gget":
			return IntV{Sel(Sel(st.ghost["MapV"], ref), keyOf(call.Args[1]))}
		case "ggets":
			r := Sel(Sel(st.ghost["MapV"], ref), keyOf(call.Args[1]))
			if e.quant == 0 {
				r = e.nameAlways("gs", r)
				e.strIDs = append(e.strIDs, r)
				e.assume(st, Ge(e.slen(r), I(0)), "ghost string")
			}
			return StrV{r}
		default:
			if e.oldState == nil {
				return BoolV{tTrue}
			}
			e.ensureMapHeaps(e.oldState)
			// quantifier-free frame: new == old with the named keys overwritten by their new values
			cur := Sel(st.ghost["MapV"], ref)
			upd := Sel(e.oldState.ghost["MapV"], ref)
			for _, a := range call.Args[1:] {
				k := keyOf(a)
				upd = Sto(upd, k, Sel(cur, k))
			}
			return BoolV{Eq(cur, upd)}
		}
	case "sameMapExcept":
		if e.oldState == nil {
			return BoolV{tTrue}
		}
		e.ensureMapHeaps(st)
		e.ensureMapHeaps(e.oldState)
		m := e.eval(st, call.Args[0])
		ref := e.asInt(m, call.Args[0])
		curP, curV := Sel(st.ghost["MapP"], ref), Sel(st.ghost["MapV"], ref)
		updP, updV := Sel(e.oldState.ghost["MapP"], ref), Sel(e.oldState.ghost["MapV"], ref)
		for _, a := range call.Args[1:] {
			k := e.mapKey(st, e.eval(st, a), a)
			updP = Sto(updP, k, Sel(curP, k))
			updV = Sto(updV, k, Sel(curV, k))
		}
		return BoolV{And(Eq(curP, updP), Eq(curV, updV))}
	case "before":
		pv, ok1 := e.eval(st, call.Args[0]).(RefV)
		qv, ok2 := e.eval(st, call.Args[1]).(RefV)
		if !ok1 || !ok2 {
			e.fail(call, "before needs pointers")
		}
		sz := 1
		if pt, ok := under(e.typeOf(call.Args[0])).(*types.Pointer); ok {
			sz = e.cells(pt.Elem())
		}
		return BoolV{Le(Add(pv.t, I(int64(sz))), qv.t)}
	case "allocated":
		v := e.eval(st, call.Args[0])
		t := e.typeOf(call.Args[0])
		switch x := v.(type) {
		case RefV:
			sz := 1
			if pt, ok := under(t).(*types.Pointer); ok {
				sz = e.cells(pt.Elem())
			}
			return BoolV{And(Gt(x.t, I(0)), Le(Add(x.t, I(int64(sz))), st.alloc))}
		case SliceV:
			return BoolV{Lt(x.blk, st.alloc)}
		}
		e.fail(call, "allocated of %T", v)
	case "sameBlock":
		a, aok := e.eval(st, call.Args[0]).(SliceV)
		b, bok := e.eval(st, call.Args[1]).(SliceV)
		if !aok || !bok {
			e.fail(call, "sameBlock needs slices")
		}
		return BoolV{Eq(a.blk, b.blk)}
	case "disjoint":
		a, aok := e.eval(st, call.Args[0]).(SliceV)
		b, bok := e.eval(st, call.Args[1]).(SliceV)
		if !aok || !bok {
			e.fail(call, "disjoint needs slices")
		}
		return BoolV{Or(Ne(a.blk, b.blk), Eq(a.blk, I(0)))}
	case "sameRef":
		a := e.eval(st, call.Args[0])
		b := e.eval(st, call.Args[1])
		return BoolV{Eq(e.flatten(st, a, e.typeOf(call.Args[0]))[0], e.flatten(st, b, e.typeOf(call.Args[1]))[0])}
	case "b2i":
		return IntV{B2I(e.asBool(e.eval(st, call.Args[0]), call))}
	case "has":
		m := e.eval(st, call.Args[0])
		k := e.mapKey(st, e.eval(st, call.Args[1]), call.Args[1])
		return BoolV{e.mapHas(st, m, k)}
	case "gmap":
		cv := e.constOf(call.Args[0])
		if cv == nil {
			e.fail(call, "gmap needs a constant name")
		}
		gname := "gm_" + sanitize(strings.Trim(cv.ExactString(), "\""))
		var argTs []T
		for _, a := range call.Args[1:] {
			v := e.eval(st, a)
			argTs = append(argTs, e.flatten(st, v, e.typeOf(a))...)
		}
		// only the identity (first cell) of reference-like arguments matters
		if len(call.Args) == 2 {
			argTs = argTs[:1]
		}
		decl := fmt.Sprintf("(declare-fun %s (%s) Int)", gname, strings.TrimSpace(strings.Repeat("Int ", len(argTs))))
		e.declareUF(gname, decl)
		var r T
		if len(argTs) == 0 {
			r = T{gname, SInt}
		} else {
			r = app(SInt, gname, argTs...)
		}
		// ghost maps live at negative references: never nil, never a program allocation
		e.ghostMapAxiom(gname, len(argTs))
		return RefV{r}
	}
	e.fail(call, "unknown spec helper %s", name)
	return nil
}

// ghostCells: the cells by which a ghost observer identifies its argument: an interface value (and a pointer boxed
// in it) is identified by its reference alone, so observers agree on a pointer and the interface holding it.
func (e *Engine) ghostCells(st *State, v Value, t types.Type) []T {
	if iv, ok := v.(IfaceV); ok {
		return []T{iv.ref}
	}
	return e.flatten(st, v, t)
}

func (e *Engine) ghostRangeAxiom(gname string, n int, kind string) {
	key := "axiom:" + gname
	if e.assumptions[key] || n == 0 {
		return
	}
	e.assumptions[key] = true
	var vars []string
	var args []T
	for i := 0; i < n; i++ {
		v := fmt.Sprintf("a%d", i)
		vars = append(vars, v)
		args = append(args, T{v, SInt})
	}
	t := app(SInt, gname, args...)
	if kind == "str" {
		e.assumeGlobal(Forall(vars, Ge(e.slen(t), I(0))), "ghost string observer")
	} else {
		e.assumeGlobal(Forall(vars, rangeFact(t, types.Typ[types.Uint64])), "ghost uint64 observer")
	}
}

func (e *Engine) ghostMapAxiom(gname string, n int) {
	key := "axiom:" + gname
	if e.assumptions[key] {
		return
	}
	e.assumptions[key] = true
	var vars []string
	var args []T
	for i := 0; i < n; i++ {
		v := fmt.Sprintf("a%d", i)
		vars = append(vars, v)
		args = append(args, T{v, SInt})
	}
	// each ghost-map family lives in its own residue class mod 64: maps of different families never alias
	e.gmapFamilies++
	fam := I(int64(e.gmapFamilies % 64))
	if n == 0 {
		e.assumeGlobal(And(Lt(T{gname, SInt}, I(0)), Eq(Mod(T{gname, SInt}, I(64)), fam)), "ghost map references are negative; families are disjoint")
		return
	}
	t := app(SInt, gname, args...)
	e.assumeGlobal(Forall(vars, And(Lt(t, I(0)), Eq(Mod(t, I(64)), fam))), "ghost map references are negative; families are disjoint")
	if n == 1 {
		// different identities own different maps: injectivity through an inverse function
		inv := gname + "_inv"
		e.declareUF(inv, fmt.Sprintf("(declare-fun %s (Int) Int)", inv))
		e.assumeGlobal(Forall(vars, Eq(app(SInt, inv, t), args[0])), "ghost maps of different identities are different maps")
	}
}

type bytesOp struct{ arr, off, n T }

// bytesOperand views a slice, array, pointer-to-array or string as (array, offset, length).
func (e *Engine) bytesOperand(st *State, x ast.Expr) bytesOp {
	// old(e): header and contents both from the pre-state
	if c, ok := x.(*ast.CallExpr); ok && len(c.Args) == 1 {
		if id, ok := c.Fun.(*ast.Ident); ok && id.Name == "old" {
			if f, ok := e.pkg.info.Uses[id].(*types.Func); ok && f.Pkg() == nil && e.oldState != nil {
				return e.bytesOperand(e.oldState, c.Args[0])
			}
		}
	}
	t := e.typeOf(x)
	switch u := under(t).(type) {
	case *types.Slice:
		sv := e.eval(st, x).(SliceV)
		return bytesOp{Sel(st.Mem, sv.blk), sv.off, sv.ln}
	case *types.Array:
		blk, ok := e.addrOf(st, x)
		if !ok {
			if av, ok2 := e.eval(st, x).(ArrV); ok2 {
				blk = av.blk
			} else {
				e.fail(x, "array operand not addressable")
			}
		}
		return bytesOp{Sel(st.Mem, blk), I(0), I(u.Len())}
	case *types.Pointer:
		if at, ok := under(u.Elem()).(*types.Array); ok {
			ref := e.asInt(e.eval(st, x), x)
			return bytesOp{Sel(st.Mem, ref), I(0), I(at.Len())}
		}
	case *types.Basic:
		if u.Info()&types.IsString != 0 {
			s := e.asInt(e.eval(st, x), x)
			return bytesOp{e.sarr(s), I(0), e.slen(s)}
		}
	}
	e.fail(x, "operand of type %s is not a byte sequence", t)
	return bytesOp{}
}

func byteSum(arr, off T, n int, bigEndian bool) T {
	sum := I(0)
	for i := 0; i < n; i++ {
		var shift uint
		if bigEndian {
			shift = uint(8 * (n - 1 - i))
		} else {
			shift = uint(8 * i)
		}
		sum = Add(sum, Mul(Sel(arr, Add(off, I(int64(i)))), IBig(pow2(shift))))
	}
	return sum
}

// hoistCalls evaluates, outside the quantifier, calls (and string conversions of slices) in a quantifier body
// that do not mention the bound variables; their values are reused inside the body.
func (e *Engine) hoistCalls(st *State, body ast.Expr, bound map[types.Object]Value) {
	if e.hoisted == nil {
		e.hoisted = map[ast.Expr]Value{}
	}
	mentionsBound := func(x ast.Node) bool {
		found := false
		ast.Inspect(x, func(n ast.Node) bool {
			if id, ok := n.(*ast.Ident); ok {
				if o := e.pkg.info.Uses[id]; o != nil {
					if _, isB := bound[o]; isB {
						found = true
					}
					for i := len(e.envStack) - 1; i >= 0 && e.quant > 0; i-- {
						// variables bound by enclosing quantifiers
						if _, ok := e.envStack[i][o]; ok && e.isQuantVar(o) {
							found = true
						}
					}
				}
			}
			return !found
		})
		return found
	}
	// hoist maximal bound-variable-free sub-expressions that touch the heap or call something
	hoistableNode := func(n ast.Node) (ast.Expr, bool) {
		switch x := n.(type) {
		case *ast.CallExpr:
			if e.hoistable(x) {
				return x, true
			}
		case *ast.SelectorExpr:
			if sel := e.pkg.info.Selections[x]; sel != nil && sel.Kind() == types.FieldVal {
				return x, true
			}
		case *ast.IndexExpr:
			if tv, ok := e.pkg.info.Types[x.X]; ok && !tv.IsType() {
				_, isMap := under(tv.Type).(*types.Map)
				_, isFn := under(tv.Type).(*types.Signature) // instantiation of a generic, not an element access
				if !isMap && !isFn {
					return x, true
				}
			}
		case *ast.StarExpr:
			if tv, ok := e.pkg.info.Types[x]; ok && tv.IsType() {
				return nil, false
			}
			return x, true
		}
		return nil, false
	}
	var walkIn func(x ast.Node, state *State)
	walkIn = func(x ast.Node, state *State) {
		ast.Inspect(x, func(n ast.Node) bool {
			if n == nil {
				return true
			}
			if _, ok := n.(*ast.FuncLit); ok {
				return false
			}
			if call, ok := n.(*ast.CallExpr); ok {
				if id, ok := call.Fun.(*ast.Ident); ok {
					if f, ok := e.pkg.info.Uses[id].(*types.Func); ok && f.Pkg() == nil {
						switch id.Name {
						case "old":
							if e.oldState != nil {
								walkIn(call.Args[0], e.oldState)
								return false
							}
							return true
						case "cur":
							if e.clauseState != nil {
								walkIn(call.Args[0], e.clauseState)
								return false
							}
							return true
						case "forall", "exists":
							return false
						}
					}
				}
			}
			if hx, ok := hoistableNode(n); ok && !mentionsBound(hx) {
				if e.constOf(hx) != nil {
					return false
				}
				if _, done := e.hoisted[hx]; !done {
					e.hoisted[hx] = e.eval(state, hx)
				}
				return false
			}
			return true
		})
	}
	walkIn(body, st)
}

func (e *Engine) isQuantVar(o types.Object) bool { return e.quantVars[o] }

// hoistable: calls of program functions (with contract / inlinable) and strOf.
func (e *Engine) hoistable(call *ast.CallExpr) bool {
	if tv, ok := e.pkg.info.Types[call.Fun]; ok && tv.IsType() {
		return false
	}
	if id, ok := call.Fun.(*ast.Ident); ok {
		if f, ok := e.pkg.info.Uses[id].(*types.Func); ok && f.Pkg() == nil {
			return id.Name == "strOf"
		}
		if _, ok := e.pkg.info.Uses[id].(*types.Builtin); ok {
			return false
		}
	}
	return e.calleeFunc(call) != nil
}

// lexLess: bytewise lexicographic x < y (exists a first differing position, or x is a proper prefix of y).
func (e *Engine) lexLess(x, y bytesOp) T {
	e.nsym++
	dv := fmt.Sprintf("d!%d", e.nsym)
	d := T{dv, SInt}
	e.nsym++
	jv := fmt.Sprintf("j!%d", e.nsym)
	j := T{jv, SInt}
	same := func(upto T) T {
		return Forall([]string{jv}, Implies(And(Le(I(0), j), Lt(j, upto)), Eq(Sel(x.arr, Add(x.off, j)), Sel(y.arr, Add(y.off, j)))))
	}
	properPrefix := And(Lt(x.n, y.n), same(x.n))
	differ := Exists([]string{dv}, And(Le(I(0), d), Lt(d, x.n), Lt(d, y.n), Lt(Sel(x.arr, Add(x.off, d)), Sel(y.arr, Add(y.off, d))), same(d)))
	return Or(properPrefix, differ)
}

func (e *Engine) evalGhostOf(st *State, call *ast.CallExpr) Value {
	t := e.typeOf(call)
	cv := e.constOf(call.Args[0])
	if cv == nil {
		e.fail(call, "ghostOf needs a constant name")
	}
	gname := "go_" + sanitize(strings.Trim(cv.ExactString(), "\""))
	var argTs []T
	for _, a := range call.Args[1:] {
		v := e.eval(st, a)
		argTs = append(argTs, e.ghostCells(st, v, e.typeOf(a))...)
	}
	decl := fmt.Sprintf("(declare-fun %s (%s) Int)", gname, strings.TrimSpace(strings.Repeat("Int ", len(argTs))))
	e.declareUF(gname, decl)
	var r T
	if len(argTs) == 0 {
		r = T{gname, SInt}
	} else {
		r = app(SInt, gname, argTs...)
	}
	switch u := under(t).(type) {
	case *types.Pointer, *types.Map:
		return RefV{r}
	case *types.Basic:
		if u.Info()&types.IsBoolean != 0 {
			return BoolV{Eq(r, I(1))}
		}
		if u.Info()&types.IsString != 0 {
			return StrV{r}
		}
		return IntV{r}
	case *types.Interface:
		return IfaceV{r, Ite(Eq(r, I(0)), I(0), I(1))}
	}
	e.fail(call, "ghostOf result type %s not supported", t)
	return nil
}

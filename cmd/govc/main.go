package main

import (
	"go/types"
	"go/ast"
	"encoding/json"
	"flag"
	"fmt"
	"os"
	"path/filepath"
	"runtime"
	"sort"
	"strconv"
	"strings"
	"time"
)

func usage() {
	fmt.Fprintln(os.Stderr, `usage:
  govc check -property <id> [-tier quick|thorough] [-repo /repo] [-func substr] [-v] [-keep]
  govc list  [-repo /repo]
  govc replay <path>`)
	os.Exit(2)
}

func main() {
	if len(os.Args) < 2 {
		usage()
	}
	switch os.Args[1] {
	case "check":
		os.Exit(cmdCheck(os.Args[2:]))
	case "list":
		os.Exit(cmdList(os.Args[2:]))
	case "replay":
		os.Exit(cmdReplay(os.Args[2:]))
	case "selftest":
		os.Exit(cmdSelftest(os.Args[2:]))
	case "sweep":
		os.Exit(cmdSweep(os.Args[2:]))
	case "ordinals":
		os.Exit(cmdOrdinals(os.Args[2:]))
	case "errloops":
		os.Exit(cmdErrLoops(os.Args[2:]))
	case "lock":
		os.Exit(cmdLock(os.Args[2:]))
	default:
		usage()
	}
}

func hasProp(props []string, p string) bool {
	for _, x := range props {
		if x == p {
			return true
		}
	}
	return false
}

func contractServes(fc *FuncContract, prop string) bool {
	if hasProp(fc.props, prop) {
		return true
	}
	for _, c := range fc.ensures {
		if hasProp(c.props, prop) {
			return true
		}
	}
	for _, gs := range fc.guards {
		for _, g := range gs {
			if hasProp(g.spec.props, prop) {
				return true
			}
		}
	}
	for _, lc := range fc.loops {
		for _, c := range lc.invariants {
			if hasProp(c.props, prop) {
				return true
			}
		}
		for _, c := range lc.steps {
			if hasProp(c.props, prop) {
				return true
			}
		}
	}
	return false
}

type checkOpts struct {
	property string
	tier     string
	repo     string
	only    string
	funcSub  string
	verbose  bool
	keep     bool
	seed     int
	overlay  map[string][]byte
	noEvidence bool
	replayAlways bool
	quiet    bool
}

type checkOutcome struct {
	exit       int
	failed     []*Oblig
	known      []*Oblig
	results    []*FuncResult
	obligs     []*Oblig
	loadErr    string
}

func cmdCheck(args []string) int {
	fs := flag.NewFlagSet("check", flag.ExitOnError)
	var o checkOpts
	fs.StringVar(&o.property, "property", "", "property id")
	fs.StringVar(&o.tier, "tier", envOr("VERIF_TIER", "quick"), "quick|thorough")
	fs.StringVar(&o.repo, "repo", "/repo", "repository root")
	fs.StringVar(&o.funcSub, "func", "", "only functions whose name contains this")
	fs.BoolVar(&o.verbose, "v", false, "verbose")
	fs.BoolVar(&o.keep, "keep", false, "keep SMT files")
	fs.StringVar(&o.only, "only", "", "debugging: solve only obligations whose name contains this (implies -no-evidence)")
	var mutate string
	fs.StringVar(&mutate, "mutate", "", "in-memory edit relpath::old::new (testing the checker; never written to /repo)")
	fs.BoolVar(&o.noEvidence, "no-evidence", false, "do not write evidence / replay files")
	fs.Parse(args)
	if o.property == "" {
		usage()
	}
	if mutate != "" {
		ov, err := mutationOverlay(o.repo, mutate)
		if err != nil {
			fmt.Println("bad -mutate:", err)
			return 2
		}
		o.overlay = ov
		o.noEvidence = true
		o.replayAlways = true
	}
	if o.only != "" {
		o.noEvidence = true
	}
	o.seed, _ = strconv.Atoi(envOr("VERIF_SEED", "0"))
	out := runCheck(o)
	return out.exit
}

func envOr(k, d string) string {
	if v := os.Getenv(k); v != "" {
		return v
	}
	return d
}

func verifRoot() string {
	if v := os.Getenv("VERIF_ROOT"); v != "" {
		return v
	}
	exe, err := os.Executable()
	if err == nil {
		d := filepath.Dir(filepath.Dir(exe))
		if _, err := os.Stat(filepath.Join(d, "MANIFEST.json")); err == nil {
			return d
		}
	}
	return "/verif"
}

func runCheck(o checkOpts) checkOutcome {
	t0 := time.Now()
	var out checkOutcome
	say := func(format string, a ...interface{}) {
		if !o.quiet {
			fmt.Printf(format, a...)
		}
	}
	prog, err := loadProgram(o.repo, repoPkgPatterns, o.overlay)
	if err != nil {
		say("cannot decide: loading /repo failed: %v\n", err)
		out.exit = 2
		out.loadErr = err.Error()
		return out
	}
	if err := prog.loadExtContracts(filepath.Join(verifRoot(), "contracts", "ext")); err != nil {
		say("cannot decide: ext contracts: %v\n", err)
		out.exit = 2
		out.loadErr = err.Error()
		return out
	}
	if err := prog.bindContracts(); err != nil {
		say("cannot decide: contract does not bind: %v\n", err)
		out.exit = 2
		out.loadErr = err.Error()
		return out
	}
	for _, rb := range prog.rebound {
		say("note: %s\n", rb)
	}
	bindExit := 0
	for _, bi := range prog.bindIssues {
		say("cannot decide: contract does not bind: %s\n", bi.msg)
		bindExit = 2
	}
	tLoad := time.Since(t0).Seconds()
	// select functions
	var keys []string
	for k, fc := range prog.contracts {
		if fc.ext {
			continue
		}
		if contractServes(fc, o.property) && (o.funcSub == "" || strings.Contains(k, o.funcSub)) {
			keys = append(keys, k)
		}
	}
	sort.Strings(keys)
	if len(keys) == 0 {
		say("cannot decide: no contract serves property %s\n", o.property)
		out.exit = 2
		return out
	}
	var results []*FuncResult
	var units []*FuncContract
	for _, k := range keys {
		fc := prog.contracts[k]
		var addUnit func(fc *FuncContract)
		addUnit = func(fc *FuncContract) {
			units = append(units, fc)
			var ords []int
			for ord := range fc.closures {
				ords = append(ords, ord)
			}
			sort.Ints(ords)
			for _, ord := range ords {
				addUnit(fc.closures[ord])
			}
		}
		addUnit(fc)
	}
	for _, fc := range units {
		e := newEngine(prog)
		res := e.verifyFunc(fc)
		results = append(results, res)
	}
	tGen := time.Since(t0).Seconds() - tLoad
	dir, _ := os.MkdirTemp("", "govc-smt-")
	if !o.keep {
		defer os.RemoveAll(dir)
	} else {
		say("SMT files kept in %s\n", dir)
	}
	timeout := 30
	cross := false
	if o.tier == "thorough" {
		timeout = 90
		cross = true
	}
	// keep only obligations relevant to the property (plus covers)
	for _, r := range results {
		var keep []*Oblig
		for _, ob := range r.obligs {
			if o.only != "" && !strings.Contains(ob.name, o.only) {
				continue // debugging aid: -only never writes evidence
			}
			if (hasProp(ob.props, o.property) || ob.kind == "cover") && kindServes(o.property, ob) {
				keep = append(keep, ob)
			}
		}
		r.obligs = keep
	}
	known := loadKnownFindings(filepath.Join(verifRoot(), "known_findings.txt"))
	knownNames := map[string]bool{}
	for k := range known {
		if strings.HasPrefix(k, o.property+"|") {
			knownNames[strings.TrimPrefix(k, o.property+"|")] = true
		}
	}
	solveAll(results, dir, timeout, runtime.NumCPU(), cross, knownNames)
	tSolve := time.Since(t0).Seconds() - tLoad - tGen

	exit := bindExit
	var all []*Oblig
	bySolver := map[string]int{}
	solverTime := 0.0
	nObl, nDis := 0, 0
	var undecided []string
	for _, r := range results {
		if r.outside != "" {
			say("cannot decide: %s left the verifiable subset: %s\n", r.name, r.outside)
			undecided = append(undecided, r.name+": "+r.outside)
			exit = 2
		}
		for _, d := range r.deadClauses {
			say("cannot decide: contract clause generated nothing: %s (%s)\n", d, r.name)
			undecided = append(undecided, "dead clause "+d)
			exit = 2
		}
		deadGot := 0
		for _, ob := range r.obligs {
			if ob.kind == "cover" && ob.status == "unsat" && strings.Contains(ob.name, "/cover:return#") {
				deadGot++
			}
		}
		deadOK := deadGot == r.deadWant && deadGot > 0
		if deadGot != r.deadWant && r.deadWant > 0 {
			say("cannot decide: %s declares %d unreachable returns, %d found\n", r.name, r.deadWant, deadGot)
			undecided = append(undecided, fmt.Sprintf("dead returns of %s: declared %d, found %d", r.name, r.deadWant, deadGot))
			exit = 2
		}
		for _, ob := range r.obligs {
			all = append(all, ob)
			solverTime += ob.secs
			if ob.kind == "cover" {
				if ob.status != "sat" {
					// contradictory precondition (or solver could not show satisfiable)
					if ob.status == "unsat" && deadOK && strings.Contains(ob.name, "/cover:return#") {
						// declared: defensive returns that the callee contracts make unreachable
					} else if ob.status == "unsat" {
						say("cannot decide: %s is unsatisfiable — contradictory precondition or assumptions (vacuous proof)\n", ob.name)
						undecided = append(undecided, "vacuous: "+ob.name)
						exit = 2
					} else if o.verbose {
						say("note: cover query for %s undecided (%s)\n", r.name, ob.status)
					}
				}
				continue
			}
			nObl++
			if ob.status == "unsat" {
				nDis++
				bySolver[ob.solver]++
				continue
			}
		}
	}
	// violations
	var lines []string
	replayDir := filepath.Join(verifRoot(), "replay", o.property)
	if o.noEvidence {
		replayDir = filepath.Join(os.TempDir(), "govc-replay-out", o.property)
	}
	for _, r := range results {
		for _, ob := range r.obligs {
			if ob.kind == "cover" || ob.status == "unsat" {
				continue
			}
			if kf, ok := known[o.property+"|"+ob.name]; ok {
				out.known = append(out.known, ob)
				lines = append(lines, fmt.Sprintf("KNOWN-FINDING: property=%s %s — %s", o.property, ob.name, kf))
				continue
			}
			out.failed = append(out.failed, ob)
			path := ""
			reproduced := false
			if !o.noEvidence || o.replayAlways {
				path, reproduced = writeReplay(prog, r, o, ob, replayDir)
			}
			suffix := ""
			if !reproduced {
				suffix = " no-failing-input-found"
			}
			lines = append(lines, fmt.Sprintf("VIOLATION property=%s replay=%s%s", o.property, path, suffix))
			lines = append(lines, fmt.Sprintf("  failed obligation: %s  [%s, %s] at %s", ob.name, ob.status, ob.solver, ob.pos))
			if exit == 0 {
				exit = 1
			}
		}
	}
	if len(out.failed) > 0 {
		exit = 1
	}
	// a known finding that no longer fails is reported (not an error)
	seenKnown := map[string]bool{}
	for _, ob := range out.known {
		seenKnown[o.property+"|"+ob.name] = true
	}
	for k := range known {
		if strings.HasPrefix(k, o.property+"|") && !seenKnown[k] && o.funcSub == "" {
			lines = append(lines, fmt.Sprintf("note: listed finding no longer fails: %s", strings.TrimPrefix(k, o.property+"|")))
		}
	}
	for _, l := range lines {
		say("%s\n", l)
	}
	_ = time.Since(t0)
	say("property %s tier %s: %d functions under contract, %d obligations, %d discharged, %d known findings, %d violations; load %.1fs gen %.1fs solve %.1fs (solver cpu %.1fs)\n",
		o.property, o.tier, len(results), nObl, nDis, len(out.known), len(out.failed), tLoad, tGen, tSolve, solverTime)
	if o.verbose {
		for _, ob := range all {
			say("  %-9s %-12s %6.2fs %7dB %s\n", ob.status, ob.solver, ob.secs, ob.smtBytes, ob.name)
		}
	}
	out.exit = exit
	out.results = results
	out.obligs = all
	if !o.noEvidence {
		var canaries []canaryResult
		if o.tier == "thorough" && exit == 0 && o.funcSub == "" && o.only == "" {
			canaries = runCanaries(o)
			det := 0
			for _, c := range canaries {
				if c.Status == "detected" {
					det++
				} else {
					say("canary %s: %s\n", c.Seed, c.Status)
				}
			}
			if len(canaries) > 0 {
				say("canaries (stored property-breaking changes applied to a scratch copy; the check must fail): %d of %d reported\n", det, len(canaries))
			}
		}
		writeEvidence(o, results, all, nObl, nDis, bySolver, solverTime, time.Since(t0).Seconds(), out, undecided, canaries)
	}
	return out
}

func cmdList(args []string) int {
	fs := flag.NewFlagSet("list", flag.ExitOnError)
	repo := fs.String("repo", "/repo", "")
	claimedF := fs.String("claimed", "", "comma-separated claimed properties: report postconditions no claimed check proves")
	fs.Parse(args)
	claimed := *claimedF
	prog, err := loadProgram(*repo, repoPkgPatterns, nil)
	if err != nil {
		fmt.Println(err)
		return 2
	}
	if err := prog.loadExtContracts(filepath.Join(verifRoot(), "contracts", "ext")); err != nil {
		fmt.Println(err)
		return 2
	}
	if err := prog.bindContracts(); err != nil {
		fmt.Println(err)
		return 2
	}
	var keys []string
	for k := range prog.contracts {
		keys = append(keys, k)
	}
	sort.Strings(keys)
	for _, k := range keys {
		fc := prog.contracts[k]
		fmt.Printf("%-80s props=%v requires=%d ensures=%d loops=%d trusted=%v ext=%v\n", k, fc.props, len(fc.requires), len(fc.ensures), len(fc.loops), fc.trusted, fc.ext)
	}
	// postconditions that no claimed property's check discharges although call sites assume them: a C19 check keeps
	// only the postconditions tagged [C19] (kindServes), so an untagged postcondition of a function whose only claimed
	// property is C19 would be used and never proved.  `govc list -claimed C01,C02,...` reports them (exit 1).
	if claimed != "" {
		cl := map[string]bool{}
		for _, p := range strings.Split(claimed, ",") {
			cl[strings.TrimSpace(p)] = true
		}
		bad := 0
		for _, k := range keys {
			fc := prog.contracts[k]
			if fc.trusted || fc.ext || fc.standalone {
				continue
			}
			for _, c := range fc.ensures {
				if c.assume {
					continue
				}
				served := false
				for _, p := range c.props {
					if !cl[p] {
						continue
					}
					if p == "C19" && !hasProp(c.ownProps, "C19") {
						continue
					}
					served = true
				}
				if !served {
					fmt.Printf("UNSERVED postcondition (assumed at call sites, proved under no claimed property): %s: %s\n", k, c.text)
					bad++
				}
			}
		}
		if bad > 0 {
			return 1
		}
	}
	return 0
}

// ---------------------------------------------------------------------------------------
// Known findings.

func loadKnownFindings(path string) map[string]string {
	out := map[string]string{}
	b, err := os.ReadFile(path)
	if err != nil {
		return out
	}
	for _, ln := range strings.Split(string(b), "\n") {
		ln = strings.TrimSpace(ln)
		if !strings.HasPrefix(ln, "finding:") {
			continue
		}
		rest := strings.TrimSpace(strings.TrimPrefix(ln, "finding:"))
		// finding: property=<id> obligation=<name> witness=<text>
		var prop, obl, wit string
		if i := strings.Index(rest, " witness="); i >= 0 {
			wit = rest[i+9:]
			rest = rest[:i]
		}
		if i := strings.Index(rest, " obligation="); i >= 0 {
			obl = strings.TrimSpace(rest[i+12:])
			rest = rest[:i]
		}
		prop = strings.TrimSpace(strings.TrimPrefix(rest, "property="))
		if prop != "" && obl != "" {
			out[prop+"|"+obl] = wit
		}
	}
	return out
}

// ---------------------------------------------------------------------------------------
// Evidence.

func writeEvidence(o checkOpts, results []*FuncResult, all []*Oblig, nObl, nDis int, bySolver map[string]int, solverTime, wall float64, out checkOutcome, undecided []string, canaries []canaryResult) {
	type fnEv struct {
		Name        string         `json:"name"`
		SourceHash  string         `json:"source_sha256_prefix"`
		Obligations int            `json:"obligations"`
		Discharged  int            `json:"discharged"`
		Abstracted  map[string]int `json:"abstracted_constructs,omitempty"`
		Trusted     bool           `json:"trusted_contract_only,omitempty"`
	}
	var fns []fnEv
	assume := map[string]bool{}
	trusted := map[string]bool{}
	for _, r := range results {
		fe := fnEv{Name: r.name, SourceHash: r.srcHash, Abstracted: r.abstracted, Trusted: r.trusted}
		for _, ob := range r.obligs {
			if ob.kind == "cover" {
				continue
			}
			fe.Obligations++
			if ob.status == "unsat" {
				fe.Discharged++
			}
		}
		fns = append(fns, fe)
		for _, a := range r.assumptions {
			assume[a] = true
			if strings.HasPrefix(a, "assumed contract") || strings.HasPrefix(a, "model of") || strings.HasPrefix(a, "external call") || strings.HasPrefix(a, "call without contract") {
				trusted[a] = true
			}
		}
	}
	var samples []map[string]interface{}
	for i, ob := range all {
		if ob.kind == "cover" {
			continue
		}
		if len(samples) < 12 || ob.status != "unsat" {
			samples = append(samples, map[string]interface{}{"obligation": ob.name, "kind": ob.kind, "status": ob.status, "solver": ob.solver,
				"secs": round3(ob.secs), "smt_bytes": ob.smtBytes, "at": ob.pos})
		}
		_ = i
	}
	var tb []string
	for a := range trusted {
		tb = append(tb, a)
	}
	sort.Strings(tb)
	tb = append([]string{"govc VC generator (this repository, /verif/cmd/govc)", "z3 5.1.0 / z3 4.8.12 / cvc5 1.0 (first unsat wins; thorough tier cross-checks)",
		"Go semantics as encoded in DESIGN.md section 2.4 (int = 64 bit, sequential execution, typed memory)"}, tb...)
	as := []string{"sequential execution (no goroutine interleaving modelled)", "int/uint are 64 bit (GOARCH=amd64)", "typed memory: no unsafe aliasing between differently typed objects"}
	for a := range assume {
		as = append(as, a)
	}
	sort.Strings(as)
	knownNames, failedNames := []string{}, []string{}
	if undecided == nil {
		undecided = []string{}
	}
	for _, ob := range out.known {
		knownNames = append(knownNames, ob.name)
	}
	for _, ob := range out.failed {
		failedNames = append(failedNames, ob.name)
	}
	discharged := nDis
	// obligations listed as known findings are reported separately (they are genuine defects, not proof gaps)
	nObl -= len(out.known)
	cov := map[string]interface{}{
		"obligations":              nObl,
		"obligations_including_known_findings": nObl + len(out.known),
		"discharged":               discharged,
		"checker_cmd":              fmt.Sprintf("./bin/govc check -property %s -tier %s", o.property, o.tier),
		"trusted_base":             tb,
		"by_solver":                bySolver,
		"solver_time_s":            round3(solverTime),
		"functions_under_contract": fns,
		"samples":                  samples,
		"known_findings":           knownNames,
		"failed_obligations":       failedNames,
		"undecided":                undecided,
		"bounded_standins":         []string{},
	}
	if nObl == 0 {
		cov["obligations"] = 0
	}
	if canaries != nil {
		det := 0
		for _, c := range canaries {
			if c.Status == "detected" {
				det++
			}
		}
		cov["must_fail_canaries"] = map[string]interface{}{"run": len(canaries), "reported": det, "results": canaries,
			"rule": "every stored seeded change of this property that the quick check is known to report is applied to a scratch copy of the working tree; the check must raise a violation there"}
	}
	ev := map[string]interface{}{
		"property_id": o.property,
		"tier":        o.tier,
		"seed":        o.seed,
		"level":       "proof",
		"coverage":    cov,
		"assumptions": as,
		"wall_s":      round3(wall),
		"violations":  len(out.failed),
	}
	dir := filepath.Join(verifRoot(), "evidence")
	_ = os.MkdirAll(dir, 0o755)
	b, _ := json.MarshalIndent(ev, "", " ")
	_ = os.WriteFile(filepath.Join(dir, o.property+".json"), append(b, '\n'), 0o644)
}

func round3(f float64) float64 { return float64(int64(f*1000+0.5)) / 1000 }

func mutationOverlay(repo, spec string) (map[string][]byte, error) {
	parts := strings.SplitN(spec, "::", 3)
	if len(parts) != 3 {
		return nil, fmt.Errorf("want relpath::old::new")
	}
	path := filepath.Join(repo, parts[0])
	src, err := os.ReadFile(path)
	if err != nil {
		return nil, err
	}
	if n := strings.Count(string(src), parts[1]); n != 1 {
		return nil, fmt.Errorf("pattern occurs %d times in %s (want exactly 1)", n, parts[0])
	}
	return map[string][]byte{path: []byte(strings.Replace(string(src), parts[1], parts[2], 1))}, nil
}

// kindServes: C19 (never panics) is carried by the safety obligations and what they rest on (preconditions of
// callees, loop invariants, frames), not by functional postconditions, which belong to the other properties.
func kindServes(prop string, ob *Oblig) bool {
	if prop != "C19" {
		return true
	}
	switch ob.kind {
	case "post", "step":
		return ob.clause != nil && hasProp(ob.clause.ownProps, "C19")
	}
	return true
}

// cmdOrdinals prints the loop#n / if#n / closure#n ordinals of a function (a help for writing contracts).
func cmdOrdinals(args []string) int {
	fs := flag.NewFlagSet("ordinals", flag.ExitOnError)
	repo := fs.String("repo", "/repo", "")
	fn := fs.String("func", "", "substring of the function's full name")
	fs.Parse(args)
	prog, err := loadProgram(*repo, repoPkgPatterns, nil)
	if err != nil {
		fmt.Println(err)
		return 2
	}
	var keys []string
	for k := range prog.funcs {
		if strings.HasPrefix(k, repoModule) || strings.HasPrefix(k, "(*"+repoModule) || strings.HasPrefix(k, "("+repoModule) {
			if strings.Contains(k, *fn) {
				keys = append(keys, k)
			}
		}
	}
	sort.Strings(keys)
	for _, k := range keys {
		fi := prog.funcs[k]
		if fi.decl.Body == nil {
			continue
		}
		fmt.Println(k)
		line := func(n ast.Node) int { return prog.fset.Position(n.Pos()).Line }
		first := func(n ast.Node) string {
			var sb strings.Builder
			printNode(&sb, prog.fset, n)
			t := strings.Join(strings.Fields(sb.String()), " ")
			if len(t) > 90 {
				t = t[:90] + "…"
			}
			return t
		}
		for i, l := range loopsOf(fi.decl.Body) {
			fmt.Printf("  loop#%d line %d: %s\n", i+1, line(l), first(l))
		}
		for i, s := range ifsOf(fi.decl.Body) {
			fmt.Printf("  if#%d line %d: if %s\n", i+1, line(s), first(s.Cond))
		}
		for i, c := range closuresOf(fi.decl.Body) {
			fmt.Printf("  closure#%d line %d\n", i+1, line(c))
		}
	}
	return 0
}

// cmdErrLoops lists loops that assign an error variable declared outside the loop (candidates for the C18 invariant
// "no error is pending at the loop head": a failed step must end the function, not be overwritten by the next step).
func cmdErrLoops(args []string) int {
	fs := flag.NewFlagSet("errloops", flag.ExitOnError)
	repo := fs.String("repo", "/repo", "")
	fs.Parse(args)
	prog, err := loadProgram(*repo, repoPkgPatterns, nil)
	if err != nil {
		fmt.Println(err)
		return 2
	}
	_ = prog.loadExtContracts(filepath.Join(verifRoot(), "contracts", "ext"))
	_ = prog.bindContracts()
	var keys []string
	for k, fi := range prog.funcs {
		if strings.HasPrefix(fi.pkg.PkgPath, repoModule) && fi.decl.Body != nil {
			keys = append(keys, k)
		}
	}
	sort.Strings(keys)
	errT := types.Universe.Lookup("error").Type()
	for _, k := range keys {
		fi := prog.funcs[k]
		if strings.HasSuffix(prog.fset.Position(fi.decl.Pos()).Filename, "_test.go") {
			continue
		}
		info := fi.pkg.TypesInfo
		for i, l := range loopsOf(fi.decl.Body) {
			body := loopBody(l)
			found := map[string]bool{}
			ast.Inspect(body, func(n ast.Node) bool {
				if _, ok := n.(*ast.FuncLit); ok {
					return false
				}
				as, ok := n.(*ast.AssignStmt)
				if !ok || as.Tok.String() != "=" {
					return true
				}
				for _, lh := range as.Lhs {
					id, ok := lh.(*ast.Ident)
					if !ok {
						continue
					}
					o, _ := info.Uses[id].(*types.Var)
					if o == nil || !types.Identical(o.Type(), errT) {
						continue
					}
					if o.Pos() < l.Pos() || o.Pos() > l.End() {
						found[id.Name] = true
					}
				}
				return true
			})
			for name := range found {
				has := "no contract"
				if c := prog.contracts[k]; c != nil {
					has = "under contract"
				}
				fmt.Printf("%s loop#%d line %d var %s (%s)\n", k, i+1, prog.fset.Position(l.Pos()).Line, name, has)
			}
		}
	}
	return 0
}

// cmdLock writes contracts/ordinals.lock: the header text of every statement a loop#n / if#n clause is written for.
func cmdLock(args []string) int {
	fs := flag.NewFlagSet("lock", flag.ExitOnError)
	repo := fs.String("repo", "/repo", "")
	fs.Parse(args)
	prog, err := loadProgram(*repo, repoPkgPatterns, nil)
	if err != nil {
		fmt.Println(err)
		return 2
	}
	prog.lockOut = map[string]map[string][]string{}
	if err := prog.loadExtContracts(filepath.Join(verifRoot(), "contracts", "ext")); err != nil {
		fmt.Println(err)
		return 2
	}
	if err := prog.bindContracts(); err != nil {
		fmt.Println(err)
		return 2
	}
	b, _ := json.MarshalIndent(prog.lockOut, "", " ")
	if err := os.WriteFile(filepath.Join(verifRoot(), "contracts", "ordinals.lock"), append(b, '\n'), 0o644); err != nil {
		fmt.Println(err)
		return 2
	}
	fmt.Printf("ordinals.lock: %d functions with ordinal-anchored clauses\n", len(prog.lockOut))
	return 0
}

package main

// A small theory of decimal numerals over byte strings, used by the amount conversion contracts (C15).
//
//   decval(s)   = sum over i of (s[i] - 48) * 10^(len(s)-1-i)      (defined for every byte string; 0 for "")
//   decpre(s,k) = decval of the first k bytes of s
//   digits(s)   = every byte of s is an ASCII digit
//   pow10(n)    = 10^n for 0 <= n <= 19 (a table), uninterpreted above
//
// decval is left uninterpreted in the conditions; what the solvers get are the consequences of the definition
// that the generator adds where string operations create new strings (concatenation, substring, literals) and
// two global lemmas (range of a digit string, empty string).  These are theorems of the definition above (each
// by a one-line induction over the length) and are listed as trusted in every evidence file that uses them.

import (
	"fmt"
	"strings"
)

func (e *Engine) numeralOn() bool { return e.numeral }

func (e *Engine) numeralInit() {
	if e.numeral {
		return
	}
	e.numeral = true
	e.declareUF("decval", "(declare-fun decval (Int) Int)")
	e.declareUF("decpre", "(declare-fun decpre (Int Int) Int)")
	e.declareUF("isdigits", "(declare-fun isdigits (Int) Bool)")
	e.declareUF("pow10u", "(declare-fun pow10u (Int) Int)")
	var b strings.Builder
	b.WriteString("(define-fun pow10 ((n Int)) Int ")
	p := int64(1)
	for i := 0; i <= 18; i++ {
		if i == 0 {
			fmt.Fprintf(&b, "(ite (<= n 0) 1 ")
		} else {
			fmt.Fprintf(&b, "(ite (= n %d) %d ", i, p)
		}
		p *= 10
	}
	b.WriteString("(pow10u n)")
	b.WriteString(strings.Repeat(")", 19))
	b.WriteString(")")
	e.declareUF("pow10", b.String())
	e.noteAssumption("theory of decimal numerals: lemmas about decval (concatenation, substring, range of digit strings) are added by the generator as consequences of its definition, not proved by the solvers")
	// global lemmas
	sv := T{"ds!0", SInt}
	dec := app(SInt, "decval", sv)
	e.assumeGlobal(Forall([]string{"ds!0"}, Implies(app(SBool, "isdigits", sv), And(Ge(dec, I(0)), Lt(dec, app(SInt, "pow10", e.slen(sv)))))), "numerals: a digit string of length n denotes a value in [0, 10^n)")
	e.assumeGlobal(Forall([]string{"ds!0"}, Implies(Eq(e.slen(sv), I(0)), Eq(dec, I(0)))), "numerals: the empty string denotes 0")
	e.assumeGlobal(Forall([]string{"ds!0"}, And(Eq(app(SInt, "decpre", sv, I(0)), I(0)), Eq(app(SInt, "decpre", sv, e.slen(sv)), dec))), "numerals: prefix values at 0 and at the full length")
	// pow10u continues the table monotonically
	e.assumeGlobal(Forall([]string{"ds!0"}, Implies(Ge(sv, I(19)), Ge(app(SInt, "pow10u", sv), I(1000000000000000000)))), "numerals: 10^n >= 10^18 for n >= 19")
	for _, lit := range append([]string(nil), e.strLitOrder...) {
		e.numeralLit(e.strLits[lit])
	}
}

func (e *Engine) pow10(n T) T {
	e.numeralInit()
	return app(SInt, "pow10", n)
}

func (e *Engine) decval(st *State, s T) T {
	e.numeralInit()
	e.numeralLit(s)
	return app(SInt, "decval", s)
}

// isDigits: the predicate with its definition for this string.
func (e *Engine) isDigits(st *State, s T) T {
	e.numeralInit()
	e.numeralLit(s)
	r := app(SBool, "isdigits", s)
	if e.quant > 0 {
		return r
	}
	if e.digitsDefined == nil {
		e.digitsDefined = map[string]bool{}
	}
	if !e.digitsDefined[s.s] {
		e.digitsDefined[s.s] = true
		e.nsym++
		v := fmt.Sprintf("k!%d", e.nsym)
		k := T{v, SInt}
		body := Forall([]string{v}, Implies(And(Le(I(0), k), Lt(k, e.slen(s))), And(Ge(e.sbyte(s, k), I(48)), Le(e.sbyte(s, k), I(57)))))
		e.assumeGlobal(Eq(B2I(r), B2I(body)), "numerals: definition of digits() for this string")
	}
	return r
}

// numeralLit: value of a short all-digit literal.
func (e *Engine) numeralLit(s T) {
	for lit, t := range e.strLits {
		if t.s != s.s || e.numLitDone[lit] {
			continue
		}
		if e.numLitDone == nil {
			e.numLitDone = map[string]bool{}
		}
		e.numLitDone[lit] = true
		if len(lit) > 18 {
			return
		}
		v := int64(0)
		for i := 0; i < len(lit); i++ {
			if lit[i] < '0' || lit[i] > '9' {
				e.assumeGlobal(Not(app(SBool, "isdigits", s)), "numerals: literal with a non-digit byte")
				return
			}
			v = v*10 + int64(lit[i]-'0')
		}
		e.assumeGlobal(And(Eq(app(SInt, "decval", s), I(v)), app(SBool, "isdigits", s)), "numerals: value of a digit literal")
	}
}

// numeralConcat: r = a ++ b.
func (e *Engine) numeralConcat(st *State, r, a, b T) {
	if !e.numeral {
		return
	}
	e.numeralLit(a)
	e.numeralLit(b)
	da, db, dr := app(SInt, "decval", a), app(SInt, "decval", b), app(SInt, "decval", r)
	e.assume(st, Eq(dr, Add(Mul(da, app(SInt, "pow10", e.slen(b))), db)), "numerals: value of a concatenation")
	e.assume(st, Eq(B2I(app(SBool, "isdigits", r)), B2I(And(app(SBool, "isdigits", a), app(SBool, "isdigits", b)))), "numerals: digits of a concatenation")
	e.assume(st, Eq(app(SInt, "decpre", r, e.slen(a)), da), "numerals: prefix value of a concatenation")
}

// numeralSubstr: r = s[lo:hi].
func (e *Engine) numeralSubstr(st *State, r, s, lo, hi T) {
	if !e.numeral {
		return
	}
	dr := app(SInt, "decval", r)
	e.assume(st, Eq(dr, Sub(app(SInt, "decpre", s, hi), Mul(app(SInt, "decpre", s, lo), app(SInt, "pow10", Sub(hi, lo))))), "numerals: value of a substring")
	e.assume(st, Implies(app(SBool, "isdigits", s), app(SBool, "isdigits", r)), "numerals: digits of a substring")
}

package main

// Symbolic state, values, memory layout, obligations.

import (
	"fmt"
	"go/ast"
	"go/token"
	"go/types"
	"sort"
	"strings"
)

type Value interface{}

type IntV struct{ t T }
type BoolV struct{ t T }
type RefV struct{ t T }  // pointers, maps, chans, funcs: an integer reference, 0 = nil
type StrV struct{ t T }  // string identity (Int) with observers slen / sbyte
type SliceV struct{ blk, off, ln, cp T }
type IfaceV struct{ ref, tag T }
type StructV struct {
	typ *types.Struct
	f   []Value
}
type ArrV struct{ blk T } // fixed-size array value living in block blk
type TupleV []Value
type FuncV struct { // function literal or method value
	lit *ast.FuncLit
	fn  *types.Func
	recv Value
	pkg *pkgCtx // package the literal was written in
}
type LocV struct{ addr T } // variable that lives in the heap (address taken)

type Def struct {
	name string
	sort Sort
	body string // "" => declare-const
	// quantified alternative for solvers without lambda: axiom text using name
	lambda bool
	axiom  string
}

type Fact struct {
	t      T
	origin string
}

type Oblig struct {
	fastTried bool
	replayPanic bool // pre of a library call that panics when violated (requires[panics])
	name   string
	kind   string
	fn     string
	props  []string
	goal   T // pc => goal already combined
	ndefs  int
	nfacts int
	pos    string
	clause *Clause
	// result
	status string // discharged / failed / unknown
	solver string
	secs   float64
	model  string
	output string
	smtBytes int
	extraFacts []T
	xDefs   []Def  // definitions / facts / string identities created while evaluating the goal clause only
	xFacts  []Fact
	xStrIDs []T
}

type State struct {
	vars  map[types.Object]Value
	H     map[string]T // typed scalar heaps: key (struct type, field) or scalar type -> (Array Int Int); missing = epoch symbol
	epoch int          // identifies the family of not-yet-touched heaps (changes at every havoc)
	Mem   T // block heap
	alloc T
	pc    T
	ghost map[string]T // ghost heaps (name -> term), e.g. bucket maps
}

func (s *State) clone() *State {
	n := &State{Mem: s.Mem, alloc: s.alloc, pc: s.pc, epoch: s.epoch, vars: make(map[types.Object]Value, len(s.vars)), ghost: make(map[string]T, len(s.ghost)), H: make(map[string]T, len(s.H))}
	for k, v := range s.H {
		n.H[k] = v
	}
	for k, v := range s.vars {
		n.vars[k] = v
	}
	for k, v := range s.ghost {
		n.ghost[k] = v
	}
	return n
}

type Engine struct {
	globalAddrs     map[*types.Var]T // heap cells of assigned package variables
	globalAddrOrder []*types.Var
	// goal-directed instantiation: positive universal quantifiers of a goal clause are replaced by fresh constants
	// (skolemGoal); the same clause, assumed earlier (loop invariant at the head), is then instantiated at them
	pol        int
	skolemGoal bool
	skolemOf   map[*ast.FuncLit][]T
	instWith   map[*ast.FuncLit][]T
	invHead    *State
	invHeadVis T // visited-set of a map range loop at the head of the iteration
	exprPcParent map[string]string // short-circuit path conditions -> the path condition they refine
	sawHavoc bool // a loop head forgot the heap somewhere in this function
	strOfMemo map[string]strMemo
	quantSide [][]T // typed-memory side facts of the open quantifiers
	retTag string
	prog   *Program
	defs   []Def
	facts  []Fact
	obligs []*Oblig
	nsym   int
	declared map[string]bool

	// current function context
	fc       *FuncContract
	fnName   string
	curProps []string
	pkg      *pkgCtx
	slugCount map[string]int
	abstracted map[string]int // reason -> count (per function)
	typeIDs  map[string]int
	strLits  map[string]T
	globals  map[types.Object]Value
	depth    int
	specMode int // >0 while evaluating contract expressions (no obligations)
	oldState *State
	boundVars map[types.Object]Value
	retObjs  []types.Object
	assumptions map[string]bool
	funcsUnder map[string]bool
	quick bool
	uf map[string]string // uninterpreted function declarations name -> decl line
	ufOrder []string
	curPos token.Pos
	inlineStack []string
	envStack []map[types.Object]Value
	quant int
	escaping map[*types.Var]bool
	funcsUsed map[string]bool
	strTerms []strTerm
	strIDs []T
	heapSyms map[string]T
	heapKeys []string
	heapKeySeen map[string]bool
	structIDs map[*types.Struct]string
	epochCtr int
	heapDecls []Def
	hoisted map[ast.Expr]Value
	quantVars map[types.Object]bool
	strLens map[string]int64
	frame *frame
	globalOrder []types.Object
	strLitOrder []string
	phaseFast bool // solveAll phase 1: stop after the fast path
	numeral bool
	digitsDefined map[string]bool
	numLitDone map[string]bool
	loopFrames []*frame
	strLenQ    bool // theory strlen: strOf under a quantifier carries its length fact
	loopBounds []T // allocation pointer at the entry of each enclosing loop (innermost last)
	epochLoopFrames map[int][]*frame
	clauseState *State
	gmapFamilies int
	mapV0 T
	alloc0 T
	permDecl int
	visStack []T
	gfacts []Fact
	clauseMemo map[string]Value
	entryState *State
	allocSeq int
	allocTerms map[string]int
	epochFrames map[int]bool
}

type pkgCtx struct {
	info *types.Info
	pkg  *types.Package
}

func newEngine(p *Program) *Engine {
	e := newEngine0(p)
	e.declareUF("slen", "(declare-fun slen (Int) Int)")
	e.declareUF("sarr", "(declare-fun sarr (Int) (Array Int Int))")
	return e
}

func newEngine0(p *Program) *Engine {
	e := &Engine{exprPcParent: map[string]string{}, epochLoopFrames: map[int][]*frame{}, allocTerms: map[string]int{}, epochFrames: map[int]bool{}, strLens: map[string]int64{}, heapSyms: map[string]T{}, heapKeySeen: map[string]bool{}, structIDs: map[*types.Struct]string{}, prog: p, declared: map[string]bool{}, typeIDs: map[string]int{}, strLits: map[string]T{},
		globals: map[types.Object]Value{}, assumptions: map[string]bool{}, funcsUnder: map[string]bool{}, uf: map[string]string{}}
	return e
}

func (e *Engine) fresh(prefix string, sort Sort) T {
	e.nsym++
	name := fmt.Sprintf("%s!%d", sanitize(prefix), e.nsym)
	if e.permDecl > 0 {
		e.heapDecls = append(e.heapDecls, Def{name: name, sort: sort})
	} else {
		e.defs = append(e.defs, Def{name: name, sort: sort})
	}
	return T{name, sort}
}

func sanitize(s string) string {
	var b strings.Builder
	for _, c := range s {
		if (c >= 'a' && c <= 'z') || (c >= 'A' && c <= 'Z') || (c >= '0' && c <= '9') || c == '_' || c == '.' {
			b.WriteRune(c)
		} else {
			b.WriteByte('_')
		}
	}
	if b.Len() == 0 {
		return "v"
	}
	return b.String()
}

// name introduces a definition for t unless it is already atomic.
func (e *Engine) name(prefix string, t T) T {
	if len(t.s) < 24 || !strings.ContainsAny(t.s, "( ") {
		return t
	}
	e.nsym++
	name := fmt.Sprintf("%s!%d", sanitize(prefix), e.nsym)
	e.defs = append(e.defs, Def{name: name, sort: t.sort, body: t.s})
	return T{name, t.sort}
}

// nameAlways introduces a definition even for small terms (needed when the symbol itself is tracked).
func (e *Engine) nameAlways(prefix string, t T) T {
	if !strings.ContainsAny(t.s, "( ") {
		return t
	}
	e.nsym++
	name := fmt.Sprintf("%s!%d", sanitize(prefix), e.nsym)
	e.defs = append(e.defs, Def{name: name, sort: t.sort, body: t.s})
	return T{name, t.sort}
}

func (e *Engine) declareUF(name string, decl string) {
	if _, ok := e.uf[name]; !ok {
		e.uf[name] = decl
		e.ufOrder = append(e.ufOrder, name)
	}
}

func (e *Engine) assume(st *State, fact T, origin string) {
	if fact.s == "true" {
		return
	}
	if e.quant > 0 && len(e.quantSide) > 0 {
		// inside a quantifier body the path condition (and possibly the fact) mentions the bound variables: the
		// fact is assumed, universally quantified, when the quantifier is closed
		e.quantSide[len(e.quantSide)-1] = append(e.quantSide[len(e.quantSide)-1], Implies(st.pc, fact))
		return
	}
	e.facts = append(e.facts, Fact{Implies(st.pc, fact), origin})
}

func (e *Engine) assumeQ(st *State, fact T, origin string) {
	if e.quant > 0 {
		// inside a quantifier body: the typed-memory fact about a term that mentions the bound variable is
		// recorded and assumed, universally quantified, when the quantifier is closed
		if n := len(e.quantSide); n > 0 && fact.s != "true" {
			e.quantSide[n-1] = append(e.quantSide[n-1], Implies(st.pc, fact))
		}
		return
	}
	e.assume(st, fact, origin)
}

// assumeGlobal records a permanent axiom (about cached symbols: literals, heap epochs, ghost functions);
// it is part of every obligation and survives goal scopes.
func (e *Engine) assumeGlobal(fact T, origin string) {
	if fact.s == "true" {
		return
	}
	e.gfacts = append(e.gfacts, Fact{fact, origin})
}

func (e *Engine) slug(n ast.Node) string {
	if n == nil {
		return ""
	}
	return nodeText(e.prog.fset, n)
}

func normalizeSlug(s string) string {
	s = strings.Join(strings.Fields(s), " ")
	if len(s) > 100 {
		s = s[:100] + "…"
	}
	return s
}

// scope marks the start of a goal-clause evaluation: everything created after it belongs to that goal only.
type scopeMark struct{ ndefs, nfacts, nstr, nstrT, nheap, nobl int }

func (e *Engine) beginScope() scopeMark {
	return scopeMark{len(e.defs), len(e.facts), len(e.strIDs), len(e.strTerms), len(e.heapDecls), len(e.obligs)}
}

// endScope detaches what was created since the mark, attaches it to the obligations created in the scope,
// and removes it from the global lists.
func (e *Engine) endScope(m scopeMark) {
	xd := append([]Def(nil), e.defs[m.ndefs:]...)
	xf := append([]Fact(nil), e.facts[m.nfacts:]...)
	xs := append([]T(nil), e.strIDs[m.nstr:]...)
	for _, o := range e.obligs[m.nobl:] {
		// the obligation's own prefix view ends somewhere inside the scope: keep exactly what it saw
		nd, nf := o.ndefs-m.ndefs, o.nfacts-m.nfacts
		if nd < 0 {
			nd = 0
		}
		if nf < 0 {
			nf = 0
		}
		if nd > len(xd) {
			nd = len(xd)
		}
		if nf > len(xf) {
			nf = len(xf)
		}
		o.xDefs = append(o.xDefs, xd[:nd]...)
		o.xFacts = append(o.xFacts, xf[:nf]...)
		o.xStrIDs = append(o.xStrIDs, xs...)
		if o.ndefs > m.ndefs {
			o.ndefs = m.ndefs
		}
		if o.nfacts > m.nfacts {
			o.nfacts = m.nfacts
		}
	}
	e.defs = e.defs[:m.ndefs]
	e.facts = e.facts[:m.nfacts]
	e.strIDs = e.strIDs[:m.nstr]
	e.strTerms = e.strTerms[:m.nstrT]
}

// oblige records a proof obligation `pc => goal` and continues under the assumption that it holds.
func (e *Engine) oblige(st *State, kind, slug string, goal T, pos token.Pos, cl *Clause) {
	if e.specMode > 0 {
		return
	}
	if goal.s == "true" {
		if cl != nil {
			cl.fired++
		}
		return
	}
	slug = normalizeSlug(slug)
	base := fmt.Sprintf("%s/%s:%s", e.fnName, kind, slug)
	if kind == "post" && e.retTag != "" {
		// postconditions are named by the return statement they are checked at, so that adding or removing an
		// unrelated return does not rename the others
		tag := e.retTag
		if len(tag) > 48 {
			tag = tag[:48] + "…"
		}
		base += " @ " + tag
	}
	e.slugCount[base]++
	name := fmt.Sprintf("%s#%d", base, e.slugCount[base])
	props := e.curProps
	if cl != nil {
		cl.fired++
		if len(cl.props) > 0 {
			props = cl.props
		}
	}
	ps := ""
	if pos.IsValid() {
		p := e.prog.fset.Position(pos)
		ps = fmt.Sprintf("%s:%d", relRepo(p.Filename), p.Line)
	} else if cl != nil {
		ps = cl.where
	}
	o := &Oblig{name: name, kind: kind, fn: e.fnName, props: props, goal: Implies(st.pc, goal),
		ndefs: len(e.defs), nfacts: len(e.facts), pos: ps, clause: cl}
	e.obligs = append(e.obligs, o)
	prev := st.pc
	st.pc = e.name("pc", And(st.pc, goal))
	if st.pc.s != prev.s {
		e.exprPcParent[st.pc.s] = prev.s // same program path, strengthened by a proved condition
	}
}

func (e *Engine) abstract(reason string) {
	if e.abstracted == nil {
		e.abstracted = map[string]int{}
	}
	e.abstracted[reason]++
}

// ---------------------------------------------------------------------------------------
// Types and layout.

func under(t types.Type) types.Type {
	for {
		switch tt := t.(type) {
		case *types.Named:
			t = tt.Underlying()
		case *types.Alias:
			t = types.Unalias(tt)
		default:
			return t
		}
	}
}

func isByteLike(t types.Type) bool {
	b, ok := under(t).(*types.Basic)
	return ok && (b.Kind() == types.Uint8 || b.Kind() == types.Int8)
}

// intRange returns bit width and signedness for an integer type (int = 64 bit).
func intRange(t types.Type) (bits uint, signed bool, ok bool) {
	b, isb := under(t).(*types.Basic)
	if !isb {
		return 0, false, false
	}
	switch b.Kind() {
	case types.Int8:
		return 8, true, true
	case types.Int16:
		return 16, true, true
	case types.Int32:
		return 32, true, true
	case types.Int64, types.Int:
		return 64, true, true
	case types.Uint8:
		return 8, false, true
	case types.Uint16:
		return 16, false, true
	case types.Uint32:
		return 32, false, true
	case types.Uint64, types.Uint, types.Uintptr:
		return 64, false, true
	case types.UntypedInt, types.UntypedRune:
		return 0, true, true // mathematical
	}
	return 0, false, false
}

func rangeFact(t T, typ types.Type) T {
	bits, signed, ok := intRange(typ)
	if !ok || bits == 0 {
		return tTrue
	}
	if signed {
		lo := new(bigInt).Neg(pow2(bits - 1))
		hi := new(bigInt).Sub(pow2(bits-1), bigOne)
		return And(Le(IBig(lo), t), Le(t, IBig(hi)))
	}
	hi := new(bigInt).Sub(pow2(bits), bigOne)
	return And(Le(I(0), t), Le(t, IBig(hi)))
}

// cells is the number of heap cells a value of type t occupies.
func (e *Engine) cells(t types.Type) int {
	switch u := under(t).(type) {
	case *types.Basic:
		return 1
	case *types.Pointer, *types.Map, *types.Chan, *types.Signature:
		return 1
	case *types.Slice:
		return 4
	case *types.Interface:
		return 2
	case *types.Array:
		return 1 // the cell address is the block id of the array contents
	case *types.Struct:
		n := 0
		for i := 0; i < u.NumFields(); i++ {
			n += e.cells(u.Field(i).Type())
		}
		if n == 0 {
			n = 1
		}
		return n
	}
	return 1
}

func (e *Engine) fieldOffset(st *types.Struct, idx int) int {
	off := 0
	for i := 0; i < idx; i++ {
		off += e.cells(st.Field(i).Type())
	}
	return off
}

func (e *Engine) typeID(t types.Type) T {
	k := types.TypeString(t, nil)
	id, ok := e.typeIDs[k]
	if !ok {
		id = len(e.typeIDs) + 1
		e.typeIDs[k] = id
	}
	return I(int64(id))
}

// zero value of a type.
func (e *Engine) zero(st *State, t types.Type) Value {
	switch u := under(t).(type) {
	case *types.Basic:
		switch {
		case u.Info()&types.IsBoolean != 0:
			return BoolV{tFalse}
		case u.Info()&types.IsString != 0:
			return StrV{e.strLit("")}
		case u.Info()&types.IsInteger != 0:
			return IntV{I(0)}
		case u.Info()&types.IsFloat != 0:
			return IntV{I(0)}
		}
		return IntV{I(0)}
	case *types.Pointer, *types.Map, *types.Chan, *types.Signature:
		return RefV{I(0)}
	case *types.Slice:
		return SliceV{I(0), I(0), I(0), I(0)}
	case *types.Interface:
		return IfaceV{I(0), I(0)}
	case *types.Array:
		blk := e.allocBlock(st, 1)
		if isScalarElem(u.Elem()) {
			st.Mem = e.name("Mem", Sto(st.Mem, blk, T{"((as const (Array Int Int)) 0)", SArr}))
		}
		return ArrV{blk}
	case *types.Struct:
		sv := StructV{typ: u}
		for i := 0; i < u.NumFields(); i++ {
			sv.f = append(sv.f, e.zero(st, u.Field(i).Type()))
		}
		return sv
	}
	return IntV{I(0)}
}

func isScalarElem(t types.Type) bool {
	switch under(t).(type) {
	case *types.Basic, *types.Pointer, *types.Map, *types.Chan, *types.Signature:
		return true
	}
	return false
}

// symbolic (unconstrained but well-typed) value of a type; facts are assumed under st.pc.
func (e *Engine) symbolic(st *State, prefix string, t types.Type) Value {
	switch u := under(t).(type) {
	case *types.Basic:
		switch {
		case u.Info()&types.IsBoolean != 0:
			return BoolV{e.fresh(prefix, SBool)}
		case u.Info()&types.IsString != 0:
			s := e.fresh(prefix, SInt)
			e.assume(st, And(Ge(e.slen(s), I(0)), Le(e.slen(s), I(1<<40))), "string length")
			e.strIDs = append(e.strIDs, s)
			return StrV{s}
		default:
			v := e.fresh(prefix, SInt)
			e.assume(st, rangeFact(v, t), "type range")
			return IntV{v}
		}
	case *types.Pointer, *types.Map, *types.Chan, *types.Signature:
		r := e.fresh(prefix, SInt)
		sz := 1
		if p, ok := u.(*types.Pointer); ok {
			sz = e.cells(p.Elem())
		}
		e.assume(st, And(Ge(r, I(0)), Le(Add(r, I(int64(sz))), st.alloc)), "allocated reference")
		if _, isMap := u.(*types.Map); isMap {
			e.mapTyped(st, r, t)
		}
		return RefV{r}
	case *types.Slice:
		blk := e.fresh(prefix+"_blk", SInt)
		off := e.fresh(prefix+"_off", SInt)
		ln := e.fresh(prefix+"_len", SInt)
		cp := e.fresh(prefix+"_cap", SInt)
		e.assume(st, And(Ge(blk, I(0)), Lt(blk, st.alloc), Ge(off, I(0)), Ge(ln, I(0)), Le(ln, cp), Le(cp, I(1<<40)),
			Le(off, I(1<<40)), Implies(Eq(blk, I(0)), And(Eq(ln, I(0)), Eq(cp, I(0)), Eq(off, I(0))))), "slice well-formed")
		if isByteLike(u.Elem()) {
			e.bytesAreBytes(st, blk)
		} else {
			e.assume(st, e.sliceTyped(blk, u.Elem()), "typed memory: a backing array holds elements of one type")
		}
		return SliceV{blk, off, ln, cp}
	case *types.Interface:
		r := e.fresh(prefix, SInt)
		tag := e.fresh(prefix+"_tag", SInt)
		e.assume(st, And(Ge(r, I(0)), Lt(r, st.alloc), Ge(tag, I(0)), Eq(Eq(r, I(0)), Eq(tag, I(0)))), "interface well-formed")
		return IfaceV{r, tag}
	case *types.Array:
		blk := e.fresh(prefix+"_arr", SInt)
		e.assume(st, And(Gt(blk, I(0)), Lt(blk, st.alloc)), "allocated array")
		return ArrV{blk}
	case *types.Struct:
		sv := StructV{typ: u}
		for i := 0; i < u.NumFields(); i++ {
			sv.f = append(sv.f, e.symbolic(st, prefix+"_"+u.Field(i).Name(), u.Field(i).Type()))
		}
		return sv
	}
	return IntV{e.fresh(prefix, SInt)}
}

// mapTyped: a non-nil map reference of static type t is a map of that type (maps of different types never alias).
func (e *Engine) mapTyped(st *State, ref T, t types.Type) {
	e.declareUF("maptype", "(declare-fun maptype (Int) Int)")
	id, ok := e.typeIDs["map:"+types.TypeString(under(t), nil)]
	if !ok {
		id = len(e.typeIDs) + 1
		e.typeIDs["map:"+types.TypeString(under(t), nil)] = id
	}
	e.assume(st, Implies(Ne(ref, I(0)), Eq(app(SInt, "maptype", ref), I(int64(id)))), "typed memory: map reference has its static map type")
	// well-formed entry heap: references stored in a pre-existing map point to pre-existing objects
	if mt, ok := under(t).(*types.Map); ok && e.mapV0.s != "" && e.alloc0.s != "" {
		sz := 0
		switch el := under(mt.Elem()).(type) {
		case *types.Pointer:
			sz = e.cells(el.Elem())
		case *types.Map, *types.Chan, *types.Signature:
			sz = 1
		case *types.Basic:
		default:
			sz = e.cells(mt.Elem()) // boxed aggregates
		}
		if sz > 0 {
			e.nsym++
			v := fmt.Sprintf("mk!%d", e.nsym)
			k := T{v, SInt}
			c := Sel(Sel(e.mapV0, ref), k)
			e.assume(st, Implies(And(Ne(ref, I(0)), Lt(ref, e.alloc0)), Forall([]string{v}, And(Le(I(0), c), Le(Add(c, I(int64(sz))), e.alloc0)))),
				"typed memory: references stored in a pre-existing map point to pre-existing objects")
		}
	}
}

// bytesAreBytes: every cell of a block viewed as []byte / [n]byte holds a byte (typed memory).
func (e *Engine) bytesAreBytes(st *State, blk T) {
	if e.quant > 0 {
		return
	}
	e.nsym++
	v := fmt.Sprintf("k!%d", e.nsym)
	k := T{v, SInt}
	c := Sel(Sel(st.Mem, blk), k)
	e.assume(st, Forall([]string{v}, And(Le(I(0), c), Le(c, I(255)))), "typed memory: bytes of a byte block")
}

// sliceTyped: the backing array of a non-byte slice holds elements of exactly the slice's element type (Go has no
// conversion between slices of different element types), so slices of different element types never share a block.
func (e *Engine) sliceTyped(blk T, elem types.Type) T {
	e.declareUF("elty", "(declare-fun elty (Int) Int)")
	return Implies(Ne(blk, I(0)), Eq(app(SInt, "elty", blk), e.typeID(elem)))
}

// allocBlock reserves n consecutive addresses and returns the first.
func (e *Engine) allocBlock(st *State, n int) T {
	a := st.alloc
	st.alloc = e.name("alloc", Add(st.alloc, I(int64(n))))
	e.allocSeq++
	e.allocTerms[a.s] = e.allocSeq
	return a
}

// ---------------------------------------------------------------------------------------
// Frames.  A function under contract may write only memory allocated after its entry, plus what its
// `modifies` clauses name.  Every write is checked (kind "frame"); in return, callers may rely on the
// default "nothing else changes", and every loop head may assume that untouchable memory still has its
// entry contents.

type cellRange struct {
	lo, hi T      // [lo, hi)
	key    string // typed-heap key the cells belong to ("" = any heap): a scalar field named by &x.f
}

type frame struct {
	entry    *State // state relative to which untouched memory is unchanged
	bound    T
	blocks   []T
	cells    []cellRange
	maps     []T
	all      bool
	startSeq int
}

func (e *Engine) allFrames() []*frame {
	var fs []*frame
	if e.frame != nil {
		fs = append(fs, e.frame)
	}
	return append(fs, e.loopFrames...)
}

func (e *Engine) frameAllowsBlk(blk T) T {
	var cs []T
	for _, f := range e.allFrames() {
		cs = append(cs, e.frameAllowsBlk1(f, blk))
	}
	return And(cs...)
}

func (e *Engine) frameAllowsBlk1(f *frame, blk T) T {
	if f == nil || f.all {
		return tTrue
	}
	if seq, ok := e.allocTerms[blk.s]; ok && seq > f.startSeq {
		return tTrue
	}
	cs := []T{Ge(blk, f.bound)}
	for _, b := range f.blocks {
		cs = append(cs, Eq(blk, b))
	}
	return Or(cs...)
}

func (e *Engine) frameAllowsCell(addr T) T {
	var cs []T
	for _, f := range e.allFrames() {
		cs = append(cs, e.frameAllowsCell1(f, addr))
	}
	return And(cs...)
}

func (e *Engine) frameAllowsCell1(f *frame, addr T) T {
	if f == nil || f.all {
		return tTrue
	}
	if seq, ok := e.allocTerms[addr.s]; ok && seq > f.startSeq {
		return tTrue
	}
	cs := []T{Ge(addr, f.bound)}
	for _, c := range f.cells {
		cs = append(cs, And(Le(c.lo, addr), Lt(addr, c.hi)))
	}
	return Or(cs...)
}

func (e *Engine) frameAllowsMap(ref T) T {
	var cs []T
	for _, f := range e.allFrames() {
		cs = append(cs, e.frameAllowsMap1(f, ref))
	}
	return And(cs...)
}

func (e *Engine) frameAllowsMap1(f *frame, ref T) T {
	if f == nil || f.all {
		return tTrue
	}
	if seq, ok := e.allocTerms[ref.s]; ok && seq > f.startSeq {
		return tTrue
	}
	cs := []T{Ge(ref, f.bound)}
	for _, m := range f.maps {
		cs = append(cs, Eq(ref, m))
	}
	return Or(cs...)
}

// memWrite replaces the contents of block blk (frame-checked).
func (e *Engine) memWrite(st *State, blk T, arr T, what string) {
	if e.specMode == 0 {
		if g := e.frameAllowsBlk(blk); g.s != "true" {
			e.oblige(st, "frame", "write to "+what+" stays within the modifies frame", g, e.curPos, nil)
		}
	}
	st.Mem = e.name("Mem", Sto(st.Mem, blk, arr))
}

func (e *Engine) checkCellWrite(st *State, addr T, what string) {
	if e.specMode == 0 {
		if g := e.frameAllowsCell(addr); g.s != "true" {
			e.oblige(st, "frame", "write to "+what+" stays within the modifies frame", g, e.curPos, nil)
		}
	}
}

func (e *Engine) checkMapWrite(st *State, ref T, what string) {
	if e.specMode == 0 {
		if g := e.frameAllowsMap(ref); g.s != "true" {
			e.oblige(st, "frame", "update of "+what+" stays within the modifies frame", g, e.curPos, nil)
		}
	}
}

// oldStaysOld: a reference read from memory outside the frame (hence unchanged since entry) points to
// memory that already existed at entry (well-formed entry heap: stored references are allocated).
func (e *Engine) oldStaysOld(st *State, loc T, isBlock bool, ref T) {
	f := e.frame
	if f == nil || f.all {
		return
	}
	outside := []T{Lt(loc, f.bound)}
	if isBlock {
		for _, x := range f.blocks {
			outside = append(outside, Ne(loc, x))
		}
	} else {
		for _, c := range f.cells {
			outside = append(outside, Or(Lt(loc, c.lo), Ge(loc, c.hi)))
		}
	}
	e.assumeQ(st, Implies(And(outside...), Lt(ref, f.bound)), "typed memory: references stored in pre-existing memory point to pre-existing memory")
}

// assumeFrameAtHavoc: after forgetting the heap inside a function (loop head), memory outside the frame
// still has its function-entry contents.
func (e *Engine) assumeFrameMem(st *State) {
	for _, f := range e.allFrames() {
		e.assumeFrameMem1(st, f)
	}
}

func (e *Engine) assumeFrameMem1(st *State, f *frame) {
	if f == nil || f.all || f.entry == nil {
		return
	}
	e.nsym++
	v := fmt.Sprintf("fb!%d", e.nsym)
	b := T{v, SInt}
	outside := []T{Lt(b, f.bound)}
	for _, x := range f.blocks {
		outside = append(outside, Ne(b, x))
	}
	e.assume(st, Forall([]string{v}, Implies(And(outside...), Eq(Sel(st.Mem, b), Sel(f.entry.Mem, b)))), "frame: untouched blocks keep their entry contents")
}

// frameInstance: the cells [addr, addr+n) read from heap `key` in a state whose untouched heaps were forgotten at a
// loop head keep their contents from the frame's entry state when they lie outside the frame.
func (e *Engine) frameInstance(st *State, key string, addr T, n int) {
	if e.quant > 0 {
		return
	}
	var fs []*frame
	if e.epochFrames[st.epoch] && e.frame != nil {
		fs = append(fs, e.frame)
	}
	fs = append(fs, e.epochLoopFrames[st.epoch]...)
	sym, ok := e.heapSyms[fmt.Sprintf("%s@%d", key, st.epoch)]
	if !ok || len(fs) == 0 {
		// a heap merged from several paths (some of which forgot it at a loop head): every write in the function
		// is checked against the function frame, so cells outside it hold their entry contents in every state
		cur, has := st.H[key]
		if !has || e.frame == nil || e.frame.all || e.frame.entry == nil || !e.sawHavoc {
			return
		}
		if old, has0 := e.frame.entry.H[key]; has0 && old.s == cur.s {
			return
		}
		sym, fs = cur, []*frame{e.frame}
	}
	for _, f := range fs {
		if f == nil || f.all || f.entry == nil {
			continue
		}
		old := e.heapGet(f.entry, key)
		outside := []T{Lt(addr, f.bound)}
		for _, c := range f.cells {
			if c.key != "" && c.key != key {
				continue // cells of another typed heap: this heap has nothing in the frame there
			}
			outside = append(outside, Or(Lt(addr, c.lo), Ge(addr, c.hi)))
		}
		var eqs []T
		for i := 0; i < n; i++ {
			a := Add(addr, I(int64(i)))
			eqs = append(eqs, Eq(Sel(sym, a), Sel(old, a)))
		}
		e.assume(st, Implies(And(outside...), And(eqs...)), "frame: untouched cells keep their entry contents (instance)")
		// the entry state of a loop frame may itself be a forgotten heap: chain the instance
		if f.entry.epoch != st.epoch {
			e.frameInstance(f.entry, key, addr, n)
		}
	}
}

// groundFrameBlk instantiates the frame facts for one block of interest (helps the solvers' matching).
func (e *Engine) groundFrameBlk(st *State, blk T) {
	for _, f := range e.allFrames() {
		if f == nil || f.all || f.entry == nil {
			continue
		}
		outside := []T{Lt(blk, f.bound)}
		for _, x := range f.blocks {
			outside = append(outside, Ne(blk, x))
		}
		e.assume(st, Implies(And(outside...), Eq(Sel(st.Mem, blk), Sel(f.entry.Mem, blk))), "frame: untouched block keeps its entry contents (instance)")
	}
}

func (e *Engine) assumeFrameMaps(st *State) {
	for _, f := range e.allFrames() {
		e.assumeFrameMaps1(st, f)
	}
}

func (e *Engine) assumeFrameMaps1(st *State, f *frame) {
	if f == nil || f.all || f.entry == nil {
		return
	}
	for _, k := range []string{"MapP", "MapV", "MapN"} {
		cur, ok1 := st.ghost[k]
		old, ok2 := f.entry.ghost[k]
		if !ok1 || !ok2 {
			continue
		}
		e.nsym++
		v := fmt.Sprintf("fm!%d", e.nsym)
		r := T{v, SInt}
		outside := []T{Lt(r, f.bound)}
		for _, x := range f.maps {
			outside = append(outside, Ne(r, x))
		}
		e.assume(st, Forall([]string{v}, Implies(And(outside...), Eq(Sel(cur, r), Sel(old, r)))), "frame: untouched maps keep their entry contents")
	}
}

func (e *Engine) frameHeapAxiom(key string, sym T, f *frame) {
	if f == nil || f.all || f.entry == nil {
		return
	}
	old := e.heapGet(f.entry, key)
	e.nsym++
	v := fmt.Sprintf("fa!%d", e.nsym)
	a := T{v, SInt}
	outside := []T{Lt(a, f.bound)}
	for _, c := range f.cells {
		outside = append(outside, Or(Lt(a, c.lo), Ge(a, c.hi)))
	}
	e.assumeGlobal(Forall([]string{v}, Implies(And(outside...), Eq(Sel(sym, a), Sel(old, a)))), "frame: untouched cells keep their entry contents")
}

// ---------------------------------------------------------------------------------------
// Heap access.  Scalar cells live in typed heaps: one (Array Int Int) per (struct type, field) or per
// scalar type for cells outside structs.  Addresses are flat (base + offset), so interior pointers work,
// while cells of different fields can never alias (type safety of Go, no unsafe).

func (e *Engine) heapGet(st *State, key string) T {
	if t, ok := st.H[key]; ok {
		return t
	}
	ek := fmt.Sprintf("%s@%d", key, st.epoch)
	if t, ok := e.heapSyms[ek]; ok {
		return t
	}
	e.nsym++
	name := fmt.Sprintf("H_%s!%d", sanitize(key), e.nsym)
	// heap symbols are declared ahead of all definitions so that every obligation sees them
	e.heapDecls = append(e.heapDecls, Def{name: name, sort: SArr})
	t := T{name, SArr}
	e.heapSyms[ek] = t
	// frame facts for typed heaps are instantiated lazily at each load (frameInstance): asserting one quantified
	// axiom per heap and epoch made the solvers loop
	if !e.heapKeySeen[key] {
		e.heapKeySeen[key] = true
		e.heapKeys = append(e.heapKeys, key)
	}
	return t
}


func (e *Engine) heapSet(st *State, key string, t T) {
	if !e.heapKeySeen[key] {
		e.heapKeySeen[key] = true
		e.heapKeys = append(e.heapKeys, key)
	}
	st.H[key] = t
}

func (e *Engine) structKey(u *types.Struct, hint types.Type) string {
	if k, ok := e.structIDs[u]; ok {
		return k
	}
	name := fmt.Sprintf("s%d", len(e.structIDs)+1)
	if n, ok := hint.(*types.Named); ok {
		name = n.Obj().Name() + fmt.Sprintf("%d", len(e.structIDs)+1)
	}
	e.structIDs[u] = name
	return name
}

func scalarKey(t types.Type) string {
	switch u := under(t).(type) {
	case *types.Basic:
		return "ty_" + u.Name()
	case *types.Pointer:
		return "ty_ptr"
	case *types.Slice:
		return "ty_slice"
	case *types.Interface:
		return "ty_iface"
	case *types.Map:
		return "ty_map"
	}
	return "ty_other"
}

// flatten a value into cells (Int terms).
func (e *Engine) flatten(st *State, v Value, t types.Type) []T {
	switch x := v.(type) {
	case IntV:
		return []T{x.t}
	case BoolV:
		return []T{B2I(x.t)}
	case RefV:
		return []T{x.t}
	case StrV:
		return []T{x.t}
	case SliceV:
		return []T{x.blk, x.off, x.ln, x.cp}
	case IfaceV:
		return []T{x.ref, x.tag}
	case ArrV:
		return []T{x.blk} // marker: caller must copy contents (handled in storeAt)
	case StructV:
		var out []T
		for i, f := range x.f {
			out = append(out, e.flatten(st, f, x.typ.Field(i).Type())...)
		}
		if len(out) == 0 {
			out = []T{I(0)}
		}
		return out
	case LocV:
		return e.flatten(st, e.loadAt(st, x.addr, t), t)
	}
	return []T{I(0)}
}

func (e *Engine) loadAt(st *State, addr T, t types.Type) Value {
	return e.loadAtK(st, addr, t, scalarKey(t))
}

func (e *Engine) loadAtK(st *State, addr T, t types.Type, key string) Value {
	switch under(t).(type) {
	case *types.Basic, *types.Pointer, *types.Map, *types.Chan, *types.Signature, *types.Slice, *types.Interface:
		e.heapGet(st, key)
		e.frameInstance(st, key, addr, e.cells(t))
	}
	switch u := under(t).(type) {
	case *types.Basic:
		c := Sel(e.heapGet(st, key), addr)
		switch {
		case u.Info()&types.IsBoolean != 0:
			return BoolV{I2B(c)}
		case u.Info()&types.IsString != 0:
			c = e.nameQ("ld", c)
			e.assumeQ(st, And(Ge(e.slen(c), I(0)), Le(e.slen(c), I(1<<40))), "string length")
			if e.quant == 0 {
				e.strIDs = append(e.strIDs, c)
			}
			return StrV{c}
		default:
			c = e.nameQ("ld", c)
			e.assumeQ(st, rangeFact(c, t), "typed memory: "+u.Name())
			return IntV{c}
		}
	case *types.Pointer, *types.Map, *types.Chan, *types.Signature:
		c := e.nameQ("ldp", Sel(e.heapGet(st, key), addr))
		sz := 1
		if p, ok := u.(*types.Pointer); ok {
			sz = e.cells(p.Elem())
		}
		e.assumeQ(st, And(Ge(c, I(0)), Le(Add(c, I(int64(sz))), st.alloc)), "typed memory: reference is allocated")
		e.oldStaysOld(st, addr, false, c)
		if _, isMap := u.(*types.Map); isMap && e.quant == 0 {
			e.mapTyped(st, c, t)
		}
		return RefV{c}
	case *types.Slice:
		h := e.heapGet(st, key)
		blk := e.nameQ("ld_blk", Sel(h, addr))
		off := e.nameQ("ld_off", Sel(h, Add(addr, I(1))))
		ln := e.nameQ("ld_len", Sel(h, Add(addr, I(2))))
		cp := e.nameQ("ld_cap", Sel(h, Add(addr, I(3))))
		e.assumeQ(st, And(Ge(blk, I(0)), Lt(blk, st.alloc), Ge(off, I(0)), Ge(ln, I(0)), Le(ln, cp), Le(cp, I(1<<40)), Le(off, I(1<<40)),
			Implies(Eq(blk, I(0)), And(Eq(ln, I(0)), Eq(cp, I(0))))), "typed memory: slice well-formed")
		e.oldStaysOld(st, addr, false, blk)
		if !isByteLike(u.Elem()) {
			e.assumeQ(st, e.sliceTyped(blk, u.Elem()), "typed memory: a backing array holds elements of one type")
		}
		return SliceV{blk, off, ln, cp}
	case *types.Interface:
		h := e.heapGet(st, key)
		r := e.nameQ("ld_if", Sel(h, addr))
		tag := e.nameQ("ld_tag", Sel(h, Add(addr, I(1))))
		e.assumeQ(st, And(Ge(r, I(0)), Lt(r, st.alloc), Eq(Eq(r, I(0)), Eq(tag, I(0)))), "typed memory: interface well-formed")
		e.oldStaysOld(st, addr, false, r)
		return IfaceV{r, tag}
	case *types.Array:
		if e.specMode > 0 {
			return ArrV{addr}
		}
		// value semantics: copy into a fresh block
		blk := e.allocBlock(st, 1)
		st.Mem = e.name("Mem", Sto(st.Mem, blk, Sel(st.Mem, addr)))
		return ArrV{blk}
	case *types.Struct:
		sv := StructV{typ: u}
		off := 0
		sk := e.structKey(u, t)
		for i := 0; i < u.NumFields(); i++ {
			ft := u.Field(i).Type()
			sv.f = append(sv.f, e.loadAtK(st, Add(addr, I(int64(off))), ft, sk+"."+u.Field(i).Name()))
			off += e.cells(ft)
		}
		return sv
	}
	return IntV{Sel(e.heapGet(st, key), addr)}
}

func (e *Engine) storeAt(st *State, addr T, t types.Type, v Value) {
	e.storeAtK(st, addr, t, v, scalarKey(t))
}

func (e *Engine) storeAtK(st *State, addr T, t types.Type, v Value, key string) {
	if lv, ok := v.(LocV); ok {
		v = e.loadAt(st, lv.addr, t)
	}
	switch u := under(t).(type) {
	case *types.Array:
		av, ok := v.(ArrV)
		if !ok {
			return
		}
		e.memWrite(st, addr, Sel(st.Mem, av.blk), "an array")
		return
	case *types.Struct:
		sv, ok := v.(StructV)
		if !ok {
			return
		}
		off := 0
		sk := e.structKey(u, t)
		for i := 0; i < u.NumFields(); i++ {
			ft := u.Field(i).Type()
			e.storeAtK(st, Add(addr, I(int64(off))), ft, sv.f[i], sk+"."+u.Field(i).Name())
			off += e.cells(ft)
		}
		return
	}
	cellsv := e.flatten(st, v, t)
	e.checkCellWrite(st, addr, "a field or variable cell")
	h := e.heapGet(st, key)
	for i, c := range cellsv {
		h = Sto(h, Add(addr, I(int64(i))), c)
	}
	e.heapSet(st, key, e.name("H", h))
}

// ---------------------------------------------------------------------------------------
// Strings: identity Int with observers.

func (e *Engine) slen(s T) T {
	e.declareUF("slen", "(declare-fun slen (Int) Int)")
	return app(SInt, "slen", s)
}

func (e *Engine) sbyte(s, i T) T {
	return Sel(e.sarr(s), i)
}

func (e *Engine) strLit(s string) T {
	if t, ok := e.strLits[s]; ok {
		return t
	}
	e.nsym++
	name := fmt.Sprintf("strlit!%d", e.nsym)
	e.heapDecls = append(e.heapDecls, Def{name: name, sort: SInt})
	t := T{name, SInt}
	e.strLits[s] = t
	e.strIDs = append(e.strIDs, t)
	fs := []T{Eq(e.slen(t), I(int64(len(s))))}
	if len(s) <= 64 {
		for i := 0; i < len(s); i++ {
			fs = append(fs, Eq(e.sbyte(t, I(int64(i))), I(int64(s[i]))))
		}
	}
	// distinct literals are distinct identities
	for _, o := range e.strLitOrder {
		if o != s {
			fs = append(fs, Ne(t, e.strLits[o]))
		}
	}
	e.strLitOrder = append(e.strLitOrder, s)
	e.assumeGlobal(And(fs...), "string literal")
	if e.numeral {
		e.numeralLit(t)
	}
	return t
}

// ---------------------------------------------------------------------------------------
// Merging states.

func (e *Engine) mergeValues(c T, a, b Value) Value {
	switch x := a.(type) {
	case IntV:
		if y, ok := b.(IntV); ok {
			return IntV{e.nameQ("m", Ite(c, x.t, y.t))}
		}
	case BoolV:
		if y, ok := b.(BoolV); ok {
			return BoolV{e.nameQ("m", Ite(c, x.t, y.t))}
		}
	case RefV:
		if y, ok := b.(RefV); ok {
			return RefV{e.nameQ("m", Ite(c, x.t, y.t))}
		}
	case StrV:
		if y, ok := b.(StrV); ok {
			return StrV{e.nameQ("m", Ite(c, x.t, y.t))}
		}
	case SliceV:
		if y, ok := b.(SliceV); ok {
			return SliceV{e.nameQ("m", Ite(c, x.blk, y.blk)), e.nameQ("m", Ite(c, x.off, y.off)), e.nameQ("m", Ite(c, x.ln, y.ln)), e.nameQ("m", Ite(c, x.cp, y.cp))}
		}
	case IfaceV:
		if y, ok := b.(IfaceV); ok {
			return IfaceV{e.nameQ("m", Ite(c, x.ref, y.ref)), e.nameQ("m", Ite(c, x.tag, y.tag))}
		}
	case ArrV:
		if y, ok := b.(ArrV); ok {
			return ArrV{e.nameQ("m", Ite(c, x.blk, y.blk))}
		}
	case LocV:
		if y, ok := b.(LocV); ok {
			return LocV{e.nameQ("m", Ite(c, x.addr, y.addr))}
		}
	case StructV:
		if y, ok := b.(StructV); ok && len(x.f) == len(y.f) {
			out := StructV{typ: x.typ}
			for i := range x.f {
				out.f = append(out.f, e.mergeValues(c, x.f[i], y.f[i]))
			}
			return out
		}
	case TupleV:
		if y, ok := b.(TupleV); ok && len(x) == len(y) {
			var out TupleV
			for i := range x {
				out = append(out, e.mergeValues(c, x[i], y[i]))
			}
			return out
		}
	case FuncV:
		return a
	case nil:
		return b
	}
	return a
}

// merge joins states of disjoint paths.
func (e *Engine) merge(states []*State) *State {
	var live []*State
	for _, s := range states {
		if s != nil && s.pc.s != "false" {
			live = append(live, s)
		}
	}
	if len(live) == 0 {
		return nil
	}
	acc := live[len(live)-1]
	for i := len(live) - 2; i >= 0; i-- {
		s := live[i]
		c := s.pc
		n := &State{vars: map[types.Object]Value{}, ghost: map[string]T{}}
		n.pc = e.name("pc", Or(s.pc, acc.pc))
		n.H = map[string]T{}
		if s.epoch == acc.epoch {
			n.epoch = s.epoch
			keys := map[string]bool{}
			for k := range s.H {
				keys[k] = true
			}
			for k := range acc.H {
				keys[k] = true
			}
			for _, k := range sortedBoolKeys(keys) {
				a, b := e.heapGet(s, k), e.heapGet(acc, k)
				if a.s == b.s {
					n.H[k] = a
				} else {
					n.H[k] = e.name("H", Ite(c, a, b))
				}
			}
		} else {
			// different havoc histories: materialise every known heap; heaps first touched later are unconstrained
			e.epochCtr++
			n.epoch = e.epochCtr
			for _, k := range append([]string(nil), e.heapKeys...) {
				a, b := e.heapGet(s, k), e.heapGet(acc, k)
				if a.s == b.s {
					n.H[k] = a
				} else {
					n.H[k] = e.name("H", Ite(c, a, b))
				}
			}
		}
		n.Mem = e.name("Mem", Ite(c, s.Mem, acc.Mem))
		n.alloc = e.name("alloc", Ite(c, s.alloc, acc.alloc))
		// deterministic order: the names introduced here end up in the SMT text
		for _, k := range sortedObjs(s.vars) {
			v := s.vars[k]
			if w, ok := acc.vars[k]; ok {
				if sameValue(v, w) {
					n.vars[k] = v
				} else {
					n.vars[k] = e.mergeValues(c, v, w)
				}
			}
		}
		for _, k := range sortedTKeys(s.ghost) {
			v := s.ghost[k]
			if w, ok := acc.ghost[k]; ok {
				n.ghost[k] = e.name("g_"+k, Ite(c, v, w))
			}
		}
		acc = n
	}
	return acc
}

func sameValue(a, b Value) bool {
	return fmt.Sprintf("%v", a) == fmt.Sprintf("%v", b)
}

// ---------------------------------------------------------------------------------------

func nodeText(fset *token.FileSet, n ast.Node) string {
	var b strings.Builder
	printNode(&b, fset, n)
	return b.String()
}

func sortedTKeys(m map[string]T) []string {
	var ks []string
	for k := range m {
		ks = append(ks, k)
	}
	sort.Strings(ks)
	return ks
}

func sortedObjs(m map[types.Object]Value) []types.Object {
	var ks []types.Object
	for k := range m {
		ks = append(ks, k)
	}
	sort.Slice(ks, func(i, j int) bool {
		if ks[i].Pos() != ks[j].Pos() {
			return ks[i].Pos() < ks[j].Pos()
		}
		if ks[i].Name() != ks[j].Name() {
			return ks[i].Name() < ks[j].Name()
		}
		return fmt.Sprintf("%p", ks[i]) < fmt.Sprintf("%p", ks[j])
	})
	return ks
}

func sortedBoolKeys(m map[string]bool) []string {
	var ks []string
	for k := range m {
		ks = append(ks, k)
	}
	sort.Strings(ks)
	return ks
}

func sortedKeys(m map[string]int) []string {
	var ks []string
	for k := range m {
		ks = append(ks, k)
	}
	sort.Strings(ks)
	return ks
}

package main

// Statement execution: forward symbolic execution with state merging; loops cut at invariants.

import (
	"os"
	"reflect"
	"fmt"
	"strings"
	"go/ast"
	"go/token"
	"go/types"
)

type Ctx struct {
	breaks    []*State
	continues []*State
	returns   []*retState
	defers    []ast.Stmt // deferred calls in order of registration
	results   []*types.Var
	fnContract *FuncContract // contract whose loops / closures are looked up
	loopOrd   map[ast.Stmt]int
	ifOrd     map[*ast.IfStmt]int
	closureOrd map[*ast.FuncLit]int
	label     string
}

type retState struct {
	st   *State
	vals []Value
	pos  token.Pos
	tag  string // source text of the return statement (names postcondition obligations)
	nd   int    // number of defer statements executed before this return (-1: all)
}

func (e *Engine) execBlock(st *State, stmts []ast.Stmt, cx *Ctx) *State {
	for _, s := range stmts {
		if st == nil {
			return nil
		}
		st = e.execStmt(st, s, cx)
	}
	return st
}

func (e *Engine) execStmt(st *State, s ast.Stmt, cx *Ctx) *State {
	if st == nil {
		return nil
	}
	if e.fc != nil && e.fc.asserts != nil && len(e.inlineStack) == 0 {
		for _, a := range e.fc.asserts[s] {
			// at "<stmt>" assert P: an intermediate lemma, proved here (universal variables as fresh constants)
			// and then available to everything after it
			m := e.beginScope()
			tmp := st.clone()
			e.skolemGoal, e.pol, e.skolemOf = true, 1, map[*ast.FuncLit][]T{}
			g := e.evalClause(tmp, a, nil)
			e.skolemGoal, e.pol, e.skolemOf = false, 0, nil
			e.oblige(tmp, "assert", a.text, g, s.Pos(), a)
			e.endScope(m)
			g2 := e.evalClause(st, a, nil)
			e.assume(st, g2, "asserted lemma")
			st.pc = e.name("pc", And(st.pc, g2))
		}
	}
	switch n := s.(type) {
	case *ast.BlockStmt:
		return e.execBlock(st, n.List, cx)
	case *ast.ExprStmt:
		e.eval(st, n.X)
		if e.isPanicCall(n.X) {
			return nil
		}
		return st
	case *ast.EmptyStmt:
		return st
	case *ast.DeclStmt:
		gd, ok := n.Decl.(*ast.GenDecl)
		if !ok || gd.Tok != token.VAR {
			return st // local constants and types need no state
		}
		for _, sp := range gd.Specs {
			vs, ok := sp.(*ast.ValueSpec)
			if !ok {
				continue
			}
			if len(vs.Values) == 0 {
				for _, id := range vs.Names {
					obj := e.pkg.info.Defs[id].(*types.Var)
					e.declare(st, obj, e.zero(st, obj.Type()))
				}
				continue
			}
			if len(vs.Values) == 1 && len(vs.Names) > 1 {
				tv, _ := e.eval(st, vs.Values[0]).(TupleV)
				for i, id := range vs.Names {
					if id.Name == "_" {
						continue
					}
					obj := e.pkg.info.Defs[id].(*types.Var)
					e.declare(st, obj, tv[i])
				}
				continue
			}
			for i, id := range vs.Names {
				if id.Name == "_" {
					e.eval(st, vs.Values[i])
					continue
				}
				obj := e.pkg.info.Defs[id].(*types.Var)
				e.declare(st, obj, e.evalForType(st, vs.Values[i], obj.Type()))
			}
		}
		return st
	case *ast.AssignStmt:
		return e.execAssign(st, n, cx)
	case *ast.IncDecStmt:
		op := token.ADD
		if n.Tok == token.DEC {
			op = token.SUB
		}
		t := e.typeOf(n.X)
		cur := e.asInt(e.eval(st, n.X), n.X)
		e.assignTo(st, n.X, IntV{e.arith(st, op, cur, I(1), t, t, n)}, t)
		return st
	case *ast.IfStmt:
		return e.execIf(st, n, cx)
	case *ast.ForStmt:
		return e.execFor(st, n, cx)
	case *ast.RangeStmt:
		return e.execRange(st, n, cx)
	case *ast.SwitchStmt:
		return e.execSwitch(st, n, cx)
	case *ast.TypeSwitchStmt:
		return e.execTypeSwitch(st, n, cx)
	case *ast.ReturnStmt:
		return e.execReturn(st, n, cx)
	case *ast.BranchStmt:
		if n.Label != nil {
			e.fail(n, "labelled branch is outside the subset")
		}
		switch n.Tok {
		case token.BREAK:
			cx.breaks = append(cx.breaks, st)
			return nil
		case token.CONTINUE:
			cx.continues = append(cx.continues, st)
			return nil
		}
		e.fail(n, "unsupported branch statement %s", n.Tok)
	case *ast.DeferStmt:
		if e.isDroppedCall(n.Call) {
			return st
		}
		cx.defers = append(cx.defers, &ast.ExprStmt{X: n.Call})
		e.abstract("defer executed at function exit with arguments evaluated late")
		return st
	case *ast.GoStmt:
		e.fail(n, "go statement is outside the subset")
	case *ast.SelectStmt, *ast.SendStmt:
		e.fail(n, "channel operations are outside the subset")
	case *ast.LabeledStmt:
		return e.execStmt(st, n.Stmt, cx)
	}
	e.fail(s, "unsupported statement %T", s)
	return nil
}

func (e *Engine) declare(st *State, obj *types.Var, v Value) {
	if e.escaping[obj] {
		a := e.allocBlock(st, e.cells(obj.Type()))
		e.storeAt(st, a, obj.Type(), v)
		st.vars[obj] = LocV{a}
		return
	}
	st.vars[obj] = v
}

func (e *Engine) isPanicCall(x ast.Expr) bool {
	call, ok := x.(*ast.CallExpr)
	if !ok {
		return false
	}
	if id, ok := call.Fun.(*ast.Ident); ok {
		if b, ok := e.pkg.info.Uses[id].(*types.Builtin); ok && b.Name() == "panic" {
			return true
		}
	}
	return false
}

func (e *Engine) execAssign(st *State, n *ast.AssignStmt, cx *Ctx) *State {
	if n.Tok != token.ASSIGN && n.Tok != token.DEFINE {
		// op-assign
		var op token.Token
		switch n.Tok {
		case token.ADD_ASSIGN:
			op = token.ADD
		case token.SUB_ASSIGN:
			op = token.SUB
		case token.MUL_ASSIGN:
			op = token.MUL
		case token.QUO_ASSIGN:
			op = token.QUO
		case token.REM_ASSIGN:
			op = token.REM
		case token.AND_ASSIGN:
			op = token.AND
		case token.OR_ASSIGN:
			op = token.OR
		case token.XOR_ASSIGN:
			op = token.XOR
		case token.SHL_ASSIGN:
			op = token.SHL
		case token.SHR_ASSIGN:
			op = token.SHR
		case token.AND_NOT_ASSIGN:
			op = token.AND_NOT
		}
		t := e.typeOf(n.Lhs[0])
		lv := e.eval(st, n.Lhs[0])
		rv := e.eval(st, n.Rhs[0])
		if sl, ok := lv.(StrV); ok && op == token.ADD {
			e.assignTo(st, n.Lhs[0], e.strConcat(st, sl, rv.(StrV)), t)
			return st
		}
		r := e.arith(st, op, e.asInt(lv, n), e.asInt(rv, n), t, e.typeOf(n.Rhs[0]), n)
		e.assignTo(st, n.Lhs[0], IntV{r}, t)
		return st
	}
	var vals []Value
	var vtypes []types.Type
	if len(n.Rhs) == 1 && len(n.Lhs) > 1 {
		switch r := n.Rhs[0].(type) {
		case *ast.TypeAssertExpr:
			v, ok := e.evalTypeAssert(st, r, true)
			vals = []Value{v, BoolV{ok}}
			vtypes = []types.Type{e.typeOf(r.Type), types.Typ[types.Bool]}
		case *ast.IndexExpr:
			if _, isMap := under(e.typeOf(r.X)).(*types.Map); isMap {
				tv := e.mapIndex(st, r, true).(TupleV)
				vals = []Value{tv[0], tv[1]}
				vtypes = []types.Type{e.typeOf(r), types.Typ[types.Bool]}
				break
			}
			e.fail(n, "unsupported comma-ok form")
		default:
			tv, ok := e.eval(st, n.Rhs[0]).(TupleV)
			if !ok || len(tv) != len(n.Lhs) {
				e.fail(n, "tuple assignment mismatch")
			}
			vals = tv
			if tt, ok := e.typeOf(n.Rhs[0]).(*types.Tuple); ok {
				for i := 0; i < tt.Len(); i++ {
					vtypes = append(vtypes, tt.At(i).Type())
				}
			}
		}
	} else {
		for i, r := range n.Rhs {
			var lt types.Type
			if id, ok := n.Lhs[i].(*ast.Ident); !ok || id.Name != "_" {
				lt = e.lhsType(n.Lhs[i])
			}
			if lt != nil {
				vals = append(vals, e.evalForType(st, r, lt))
			} else {
				vals = append(vals, e.eval(st, r))
			}
			vtypes = append(vtypes, e.typeOf(r))
		}
	}
	for i, l := range n.Lhs {
		if id, ok := l.(*ast.Ident); ok {
			if id.Name == "_" {
				continue
			}
			if n.Tok == token.DEFINE {
				if obj, ok := e.pkg.info.Defs[id].(*types.Var); ok && obj != nil {
					var vt types.Type
					if i < len(vtypes) {
						vt = vtypes[i]
					}
					e.declare(st, obj, e.convertAssign(st, vals[i], vt, obj.Type(), l))
					continue
				}
			}
		}
		lt := e.lhsType(l)
		var vt types.Type
		if i < len(vtypes) {
			vt = vtypes[i]
		}
		e.assignTo(st, l, e.convertAssign(st, vals[i], vt, lt, l), lt)
	}
	return st
}

func (e *Engine) lhsType(l ast.Expr) types.Type {
	if id, ok := l.(*ast.Ident); ok {
		if obj := e.pkg.info.Defs[id]; obj != nil {
			return obj.Type()
		}
		if obj := e.pkg.info.Uses[id]; obj != nil {
			return obj.Type()
		}
	}
	return e.pkg.info.TypeOf(l)
}

// assignTo stores v into the location denoted by l.
func (e *Engine) assignTo(st *State, l ast.Expr, v Value, t types.Type) {
	switch n := l.(type) {
	case *ast.ParenExpr:
		e.assignTo(st, n.X, v, t)
		return
	case *ast.Ident:
		if n.Name == "_" {
			return
		}
		obj := e.pkg.info.Uses[n]
		if obj == nil {
			obj = e.pkg.info.Defs[n]
		}
		vo, ok := obj.(*types.Var)
		if !ok {
			e.fail(l, "assignment to non-variable")
		}
		if cur, ok := e.lookupVar(st, vo); ok {
			if lv, isLoc := cur.(LocV); isLoc {
				e.storeAt(st, lv.addr, vo.Type(), v)
				return
			}
			for i := len(e.envStack) - 1; i >= 0; i-- {
				if _, ok := e.envStack[i][vo]; ok {
					e.envStack[i][vo] = v
					return
				}
			}
			st.vars[vo] = v
			return
		}
		if vo.Parent() == vo.Pkg().Scope() {
			// an assigned package variable lives in a heap cell of its own (see globalVar): write it there
			if e.prog.globalsAssigned[vo] && !isErrorType(vo.Type()) {
				e.storePlace(st, e.globalPlace(st, vo), v)
				return
			}
			e.fail(l, "assignment to package variable %s that the loader did not record as assigned", vo.Name())
		}
		st.vars[vo] = v
		return
	case *ast.StarExpr:
		ref := e.asInt(e.eval(st, n.X), n)
		e.oblige(st, "nil", e.slug(n), Ne(ref, I(0)), n.Pos(), nil)
		e.storeAt(st, ref, t, v)
		return
	case *ast.SelectorExpr:
		p := e.placeOf(st, n)
		if p.isAddr {
			e.storePlace(st, p, v)
			return
		}
		// field of a detached struct value held in a local variable: rebuild the value
		e.updateDetached(st, n, v)
		return
	case *ast.IndexExpr:
		bt := e.typeOf(n.X)
		switch u := under(bt).(type) {
		case *types.Slice:
			sv := e.eval(st, n.X).(SliceV)
			i := e.asInt(e.eval(st, n.Index), n.Index)
			e.oblige(st, "bounds", e.slug(n), And(Le(I(0), i), Lt(i, sv.ln)), n.Pos(), nil)
			e.storeElem(st, sv.blk, Add(sv.off, i), u.Elem(), e.truncStore(v, u.Elem()))
			return
		case *types.Array:
			blk, ok := e.addrOf(st, n.X)
			if !ok {
				e.fail(l, "array not addressable")
			}
			i := e.asInt(e.eval(st, n.Index), n.Index)
			e.oblige(st, "bounds", e.slug(n), And(Le(I(0), i), Lt(i, I(u.Len()))), n.Pos(), nil)
			e.storeElem(st, blk, i, u.Elem(), v)
			return
		case *types.Pointer:
			if at, ok := under(u.Elem()).(*types.Array); ok {
				ref := e.asInt(e.eval(st, n.X), n.X)
				e.oblige(st, "nil", e.slug(n), Ne(ref, I(0)), n.Pos(), nil)
				i := e.asInt(e.eval(st, n.Index), n.Index)
				e.oblige(st, "bounds", e.slug(n), And(Le(I(0), i), Lt(i, I(at.Len()))), n.Pos(), nil)
				e.storeElem(st, ref, i, at.Elem(), v)
				return
			}
		case *types.Map:
			m := e.eval(st, n.X)
			ref := e.asInt(m, n.X)
			e.oblige(st, "nilmap", e.slug(n), Ne(ref, I(0)), n.Pos(), nil)
			k := e.eval(st, n.Index)
			e.mapStore(st, m, k, v, u)
			return
		}
	}
	e.fail(l, "unsupported assignment target %s", e.slug(l))
}

func (e *Engine) truncStore(v Value, elem types.Type) Value { return v }

// updateDetached handles x.f.g = v where x is a local holding a StructV.
func (e *Engine) updateDetached(st *State, sel *ast.SelectorExpr, v Value) {
	// collect the path down to the root identifier
	var path []int
	var cur ast.Expr = sel
	for {
		s, ok := cur.(*ast.SelectorExpr)
		if !ok {
			break
		}
		selInfo := e.pkg.info.Selections[s]
		if selInfo == nil || selInfo.Kind() != types.FieldVal {
			e.fail(sel, "unsupported assignment target")
		}
		idx := selInfo.Index()
		for i := len(idx) - 1; i >= 0; i-- {
			path = append([]int{idx[i]}, path...)
		}
		cur = s.X
	}
	id, ok := cur.(*ast.Ident)
	if !ok {
		e.fail(sel, "assignment to field of non-addressable value")
	}
	obj, _ := e.pkg.info.Uses[id].(*types.Var)
	rootV, ok := e.lookupVar(st, obj)
	if !ok {
		e.fail(sel, "unknown variable %s", id.Name)
	}
	sv, ok := rootV.(StructV)
	if !ok {
		e.fail(sel, "assignment to field of %T", rootV)
	}
	nv := e.updatePath(sv, path, v, sel)
	e.assignTo(st, id, nv, obj.Type())
}

func (e *Engine) updatePath(sv StructV, path []int, v Value, n ast.Node) StructV {
	out := StructV{typ: sv.typ, f: append([]Value(nil), sv.f...)}
	if len(path) == 1 {
		out.f[path[0]] = v
		return out
	}
	inner, ok := sv.f[path[0]].(StructV)
	if !ok {
		e.fail(n, "assignment through embedded pointer in detached struct")
	}
	out.f[path[0]] = e.updatePath(inner, path[1:], v, n)
	return out
}

func (e *Engine) execIf(st *State, n *ast.IfStmt, cx *Ctx) *State {
	if n.Init != nil {
		st = e.execStmt(st, n.Init, cx)
		if st == nil {
			return nil
		}
	}
	c := e.nameQ("c", e.asBool(e.eval(st, n.Cond), n.Cond))
	// guard specifications: the condition is equivalent to its specification
	if cx.fnContract != nil && cx.ifOrd != nil {
		if ord, ok := cx.ifOrd[n]; ok {
			for _, g := range cx.fnContract.guards[ord] {
				m := e.beginScope()
				tmp := st.clone()
				spec := e.evalClause(tmp, g.spec, nil)
				goal := Eq(c, spec)
				if g.when != nil {
					goal = Implies(e.evalClause(tmp, g.when, nil), goal)
					g.when.fired++
				}
				e.oblige(tmp, "guard", "if#"+fmt.Sprint(ord)+" "+g.spec.text, goal, n.Pos(), g.spec)
				e.endScope(m)
			}
		}
	}
	if c.s == "true" {
		return e.execBlock(st, n.Body.List, cx)
	}
	if c.s == "false" {
		if n.Else != nil {
			return e.execStmt(st, n.Else, cx)
		}
		return st
	}
	thenSt := st.clone()
	thenSt.pc = e.name("pc", And(st.pc, c))
	elseSt := st
	elseSt.pc = e.name("pc", And(st.pc, Not(c)))
	thenOut := e.execBlock(thenSt, n.Body.List, cx)
	var elseOut *State = elseSt
	if n.Else != nil {
		elseOut = e.execStmt(elseSt, n.Else, cx)
	}
	return e.merge([]*State{thenOut, elseOut})
}

func (e *Engine) execSwitch(st *State, n *ast.SwitchStmt, cx *Ctx) *State {
	if n.Init != nil {
		st = e.execStmt(st, n.Init, cx)
	}
	var tag Value
	var tagT types.Type
	if n.Tag != nil {
		tag = e.eval(st, n.Tag)
		tagT = e.typeOf(n.Tag)
	}
	var outs []*State
	inner := &Ctx{continues: nil, fnContract: cx.fnContract, loopOrd: cx.loopOrd, ifOrd: cx.ifOrd, closureOrd: cx.closureOrd, results: cx.results, defers: cx.defers}
	cur := st
	var deflt *ast.CaseClause
	for _, cs := range n.Body.List {
		cc := cs.(*ast.CaseClause)
		if cc.List == nil {
			deflt = cc
			continue
		}
		if cur == nil {
			break
		}
		var conds []T
		for _, x := range cc.List {
			if tag != nil {
				conds = append(conds, e.valuesEqual(cur, tag, e.eval(cur, x), tagT, x))
			} else {
				conds = append(conds, e.asBool(e.eval(cur, x), x))
			}
		}
		c := e.name("c", Or(conds...))
		bs := cur.clone()
		bs.pc = e.name("pc", And(cur.pc, c))
		cur.pc = e.name("pc", And(cur.pc, Not(c)))
		for _, s := range cc.Body {
			if br, ok := s.(*ast.BranchStmt); ok && br.Tok == token.FALLTHROUGH {
				e.fail(br, "fallthrough is outside the subset")
			}
		}
		outs = append(outs, e.execBlock(bs, cc.Body, inner))
	}
	if deflt != nil && cur != nil {
		outs = append(outs, e.execBlock(cur, deflt.Body, inner))
	} else {
		outs = append(outs, cur)
	}
	outs = append(outs, inner.breaks...)
	cx.continues = append(cx.continues, inner.continues...)
	cx.returns = append(cx.returns, inner.returns...)
	cx.defers = inner.defers
	return e.merge(outs)
}

func (e *Engine) execTypeSwitch(st *State, n *ast.TypeSwitchStmt, cx *Ctx) *State {
	if n.Init != nil {
		st = e.execStmt(st, n.Init, cx)
	}
	var guard *ast.TypeAssertExpr
	var bindName *ast.Ident
	switch a := n.Assign.(type) {
	case *ast.ExprStmt:
		guard = a.X.(*ast.TypeAssertExpr)
	case *ast.AssignStmt:
		guard = a.Rhs[0].(*ast.TypeAssertExpr)
		bindName = a.Lhs[0].(*ast.Ident)
	}
	_ = bindName
	iv, ok := e.eval(st, guard.X).(IfaceV)
	if !ok {
		e.fail(n, "type switch on non-interface")
	}
	inner := &Ctx{fnContract: cx.fnContract, loopOrd: cx.loopOrd, ifOrd: cx.ifOrd, closureOrd: cx.closureOrd, results: cx.results, defers: cx.defers}
	var outs []*State
	cur := st
	var deflt *ast.CaseClause
	for _, cs := range n.Body.List {
		cc := cs.(*ast.CaseClause)
		if cc.List == nil {
			deflt = cc
			continue
		}
		var conds []T
		var single types.Type
		for _, x := range cc.List {
			tv := e.pkg.info.Types[x]
			if tv.IsNil() {
				conds = append(conds, Eq(iv.tag, I(0)))
				continue
			}
			single = tv.Type
			if _, isIface := under(tv.Type).(*types.Interface); isIface {
				e.abstract("type switch on interface type")
				conds = append(conds, e.fresh("tsw", SBool))
				continue
			}
			conds = append(conds, Eq(iv.tag, e.typeID(tv.Type)))
		}
		c := e.name("c", Or(conds...))
		bs := cur.clone()
		bs.pc = e.name("pc", And(cur.pc, c))
		cur.pc = e.name("pc", And(cur.pc, Not(c)))
		if obj, ok := e.pkg.info.Implicits[cc].(*types.Var); ok {
			if len(cc.List) == 1 && single != nil {
				switch under(single).(type) {
				case *types.Pointer, *types.Map, *types.Chan, *types.Signature:
					bs.vars[obj] = RefV{iv.ref}
				case *types.Interface:
					bs.vars[obj] = iv
				default:
					bs.vars[obj] = e.loadAt(bs, iv.ref, single)
				}
			} else {
				bs.vars[obj] = iv
			}
		}
		outs = append(outs, e.execBlock(bs, cc.Body, inner))
	}
	if deflt != nil {
		if obj, ok := e.pkg.info.Implicits[deflt].(*types.Var); ok {
			cur.vars[obj] = iv
		}
		outs = append(outs, e.execBlock(cur, deflt.Body, inner))
	} else {
		outs = append(outs, cur)
	}
	outs = append(outs, inner.breaks...)
	cx.continues = append(cx.continues, inner.continues...)
	cx.returns = append(cx.returns, inner.returns...)
	cx.defers = inner.defers
	return e.merge(outs)
}

func (e *Engine) execReturn(st *State, n *ast.ReturnStmt, cx *Ctx) *State {
	var vals []Value
	if len(n.Results) == 0 {
		for _, r := range cx.results {
			v, _ := e.lookupVar(st, r)
			vals = append(vals, e.deLoc(st, v, r.Type()))
		}
	} else if len(n.Results) == 1 && len(cx.results) > 1 {
		tv, ok := e.eval(st, n.Results[0]).(TupleV)
		if !ok {
			e.fail(n, "return of non-tuple")
		}
		tt, _ := e.typeOf(n.Results[0]).(*types.Tuple)
		for i, v := range tv {
			var ft types.Type
			if tt != nil {
				ft = tt.At(i).Type()
			}
			vals = append(vals, e.convertAssign(st, v, ft, cx.results[i].Type(), n))
		}
	} else {
		for i, r := range n.Results {
			vals = append(vals, e.evalForType(st, r, cx.results[i].Type()))
		}
	}
	// named results observe the returned values (visible to deferred closures and postconditions)
	for i, r := range cx.results {
		if r.Name() != "" && r.Name() != "_" {
			if cur, ok := st.vars[r]; ok {
				if lv, isLoc := cur.(LocV); isLoc {
					e.storeAt(st, lv.addr, r.Type(), vals[i])
					continue
				}
			}
			st.vars[r] = vals[i]
		}
	}
	var tb strings.Builder
	printNode(&tb, e.prog.fset, n)
	cx.returns = append(cx.returns, &retState{st: st, vals: vals, pos: n.Pos(), tag: strings.Join(strings.Fields(tb.String()), " "), nd: len(cx.defers)})
	return nil
}

// ---------------------------------------------------------------------------------------
// Loops.

// assignedIn collects variables assigned in a statement (including nested closures) and whether the heap may change.
func (e *Engine) assignedIn(n ast.Node) (map[*types.Var]bool, bool, bool) {
	vars := map[*types.Var]bool{}
	heap := false
	maps := false
	mark := func(x ast.Expr) {
		for {
			switch t := x.(type) {
			case *ast.ParenExpr:
				x = t.X
				continue
			case *ast.Ident:
				if o, ok := e.pkg.info.Uses[t].(*types.Var); ok {
					vars[o] = true
				}
				if o, ok := e.pkg.info.Defs[t].(*types.Var); ok {
					vars[o] = true
				}
			case *ast.SelectorExpr:
				// field of a local struct value or heap write
				heap = true
				if _, isPtr := under(e.pkg.info.TypeOf(t.X)).(*types.Pointer); isPtr {
					return // write through a pointer: the pointer variable itself is not assigned
				}
				x = t.X
				continue
			case *ast.IndexExpr:
				switch under(e.pkg.info.TypeOf(t.X)).(type) {
				case *types.Map:
					maps = true
					return
				case *types.Slice, *types.Pointer:
					heap = true
					return // element write: the slice variable itself is not assigned
				}
				heap = true
				x = t.X
				continue
			case *ast.StarExpr:
				heap = true
			}
			return
		}
	}
	ast.Inspect(n, func(nd ast.Node) bool {
		switch s := nd.(type) {
		case *ast.AssignStmt:
			for _, l := range s.Lhs {
				mark(l)
			}
		case *ast.IncDecStmt:
			mark(s.X)
		case *ast.RangeStmt:
			if s.Key != nil {
				mark(s.Key)
			}
			if s.Value != nil {
				mark(s.Value)
			}
		case *ast.UnaryExpr:
			if s.Op == token.AND {
				mark(s.X)
			}
		case *ast.CallExpr:
			h, m := e.callEffects(s)
			heap = heap || h
			maps = maps || m
		}
		return true
	})
	return vars, heap, maps
}

// callEffects: may this call change the heap (Mem / typed heaps) or map state (Go maps, ghost maps)?
func (e *Engine) callEffects(call *ast.CallExpr) (heap bool, maps bool) {
	if id, ok := call.Fun.(*ast.Ident); ok {
		if b, ok := e.pkg.info.Uses[id].(*types.Builtin); ok {
			switch b.Name() {
			case "delete":
				return false, true
			case "copy", "append":
				return true, false
			}
			return false, false
		}
	}
	if e.isPureCallSyntactic(call) {
		return false, false
	}
	fn := e.calleeFunc(call)
	if fn != nil {
		if fc := e.prog.contracts[fn.FullName()]; fc != nil && !fc.inline && !fc.standalone {
			if fc.modAll {
				return true, true
			}
			for _, m := range fc.modifies {
				if _, isMap := under(m.info.TypeOf(m.expr)).(*types.Map); isMap {
					maps = true
				} else {
					heap = true
				}
			}
			return heap, maps
		}
		if strings.Contains(fn.FullName(), ".PutUint") {
			return true, false
		}
	}
	return true, true
}

func (e *Engine) havocLoopTargets(st *State, body ast.Node, extra ...ast.Node) {
	vars, heap, maps := e.assignedIn(body)
	for _, x := range extra {
		if x == nil {
			continue
		}
		v2, h2, m2 := e.assignedIn(x)
		for k := range v2 {
			vars[k] = true
		}
		heap = heap || h2
		maps = maps || m2
	}
	// deterministic order
	var objs []*types.Var
	for o := range vars {
		objs = append(objs, o)
	}
	sortVars(objs)
	for _, o := range objs {
		cur, ok := st.vars[o]
		if !ok {
			continue // declared inside the loop
		}
		if _, isLoc := cur.(LocV); isLoc {
			heap = true
			continue
		}
		st.vars[o] = e.symbolic(st, "lv_"+o.Name(), o.Type())
	}
	if heap {
		e.havocHeapOnly(st, "loop")
		e.sawHavoc = true
		if e.frame != nil && !e.frame.all {
			e.epochFrames[st.epoch] = true
		}
		if len(e.loopFrames) > 0 {
			e.epochLoopFrames[st.epoch] = append([]*frame(nil), e.loopFrames...)
		}
		e.assumeFrameMem(st)
	}
	if maps {
		for _, k := range sortedTKeys(st.ghost) {
			st.ghost[k] = e.fresh("g_"+k+"_loop", st.ghost[k].sort)
		}
		e.assumeFrameMaps(st)
	}
}

func (e *Engine) havocHeapOnly(st *State, why string) {
	oldAlloc := st.alloc
	e.epochCtr++
	st.epoch = e.epochCtr
	st.H = map[string]T{}
	st.Mem = e.fresh("Mem_"+why, SHeap)
	st.alloc = e.fresh("alloc_"+why, SInt)
	e.assume(st, Ge(st.alloc, oldAlloc), "allocation pointer is monotone")
}

func (e *Engine) havocHeap(st *State, why string) {
	oldAlloc := st.alloc
	e.epochCtr++
	st.epoch = e.epochCtr
	st.H = map[string]T{}
	st.Mem = e.fresh("Mem_"+why, SHeap)
	st.alloc = e.fresh("alloc_"+why, SInt)
	e.assume(st, Ge(st.alloc, oldAlloc), "allocation pointer is monotone")
	for _, k := range sortedTKeys(st.ghost) {
		st.ghost[k] = e.fresh("g_"+k+"_"+why, st.ghost[k].sort)
	}
}

// pushLoopFrame: `loop#n modifies ...` names what the loop body may change among the memory that exists when the
// loop is entered; everything else that exists then keeps its loop-entry contents at every iteration (assumed at the
// head, checked at every write in the body).
func (e *Engine) pushLoopFrame(st *State, lc *LoopContract) bool {
	if lc == nil || !lc.hasModifies {
		return false
	}
	f := &frame{entry: st.clone(), bound: st.alloc, startSeq: e.allocSeq}
	for _, m := range lc.modifies {
		m.fired++
		mt := e.evalModTarget(st, m)
		e.addFrameTarget(f, mt, m)
	}
	e.loopFrames = append(e.loopFrames, f)
	return true
}

func (e *Engine) popLoopFrame(pushed bool) {
	if pushed {
		e.loopFrames = e.loopFrames[:len(e.loopFrames)-1]
	}
}

func (e *Engine) loopContract(cx *Ctx, s ast.Stmt) *LoopContract {
	if cx.fnContract == nil {
		return nil
	}
	ord, ok := cx.loopOrd[s]
	if !ok {
		return nil
	}
	lc := cx.fnContract.loops[ord]
	if lc != nil {
		lc.used = true
	}
	return lc
}

func (e *Engine) checkInvariants(st *State, lc *LoopContract, kind string, pos token.Pos) {
	if lc == nil {
		return
	}
	for _, inv := range lc.invariants {
		m := e.beginScope()
		tmp := st.clone()
		var g T
		if kind == "inv-pres" && e.invHead != nil && os.Getenv("GOVC_NOSKOLEM") == "" {
			// prove the clause for fresh constants in place of its positive universal variables, and add the
			// instance of the clause assumed at the loop head for the same constants
			e.skolemGoal, e.pol, e.skolemOf = true, 1, map[*ast.FuncLit][]T{}
			g = e.evalClause(tmp, inv, nil)
			e.skolemGoal, e.pol = false, 0
			if len(e.skolemOf) > 0 {
				h := e.invHead.clone()
				e.instWith, e.pol = e.skolemOf, 1
				// the instance speaks about the loop head: also the ghost set of visited keys is the head's
				var saveVis T
				if e.invHeadVis.s != "" && len(e.visStack) > 0 {
					saveVis = e.visStack[len(e.visStack)-1]
					e.visStack[len(e.visStack)-1] = e.invHeadVis
				}
				inst := e.evalClause(h, inv, nil)
				if saveVis.s != "" {
					e.visStack[len(e.visStack)-1] = saveVis
				}
				e.instWith, e.pol = nil, 0
				e.facts = append(e.facts, Fact{Implies(e.invHead.pc, inst), "loop invariant (instance at the goal's constants)"})
			}
			e.skolemOf = nil
		} else {
			g = e.evalClause(tmp, inv, nil)
		}
		e.oblige(tmp, kind, inv.text, g, pos, inv)
		e.endScope(m)
	}
}

// checkSteps proves the per-iteration postconditions (old() = head of this iteration).
func (e *Engine) checkSteps(st *State, iterStart *State, lc *LoopContract, pos token.Pos) {
	if lc == nil || len(lc.steps) == 0 {
		return
	}
	save := e.oldState
	e.oldState = iterStart
	defer func() { e.oldState = save }()
	for _, s := range lc.steps {
		m := e.beginScope()
		tmp := st.clone()
		g := e.evalClause(tmp, s, nil)
		e.oblige(tmp, "step", s.text, g, pos, s)
		e.endScope(m)
	}
}

func (e *Engine) assumeInvariants(st *State, lc *LoopContract) {
	if lc == nil {
		return
	}
	for _, inv := range lc.invariants {
		g := e.evalClause(st, inv, nil)
		e.assume(st, g, "loop invariant")
		st.pc = e.name("pc", And(st.pc, g))
	}
}

func (e *Engine) execFor(st *State, n *ast.ForStmt, cx *Ctx) *State {
	if n.Init != nil {
		st = e.execStmt(st, n.Init, cx)
		if st == nil {
			return nil
		}
	}
	lc := e.loopContract(cx, n)
	if lc != nil && lc.unroll > 0 {
		return e.execUnrolled(st, n, cx, lc.unroll)
	}
	if lc != nil && lc.skip {
		return e.skipLoop(st, n, n.Body, n.Post, n.Cond)
	}
	e.loopBounds = append(e.loopBounds, st.alloc)
	defer func() { e.loopBounds = e.loopBounds[:len(e.loopBounds)-1] }()
	e.checkInvariants(st, lc, "inv-init", n.Pos())
	pushedLF := e.pushLoopFrame(st, lc)
	defer e.popLoopFrame(pushedLF)
	// loop head: arbitrary iteration
	head := st
	e.havocLoopTargets(head, n.Body, n.Post, n.Cond)
	e.assumeInvariants(head, lc)
	var dec0 T
	if lc != nil && lc.decreases != nil {
		dec0 = e.name("dec", e.asInt(e.evalClauseValue(head, lc.decreases), nil))
	} else {
		e.noteTermination(n)
	}
	exit := head.clone()
	body := head
	if n.Cond != nil {
		c := e.name("c", e.asBool(e.eval(head, n.Cond), n.Cond))
		exit = head.clone()
		exit.pc = e.name("pc", And(head.pc, Not(c)))
		body.pc = e.name("pc", And(head.pc, c))
	} else {
		exit = nil
	}
	inner := &Ctx{fnContract: cx.fnContract, loopOrd: cx.loopOrd, ifOrd: cx.ifOrd, closureOrd: cx.closureOrd, results: cx.results, defers: cx.defers}
	iterStart := body.clone()
	out := e.execBlock(body, n.Body.List, inner)
	for _, ps := range append([]*State{out}, inner.continues...) {
		if ps != nil {
			e.checkSteps(ps, iterStart, lc, n.Pos()) // per path: simpler conditions than on the merged state
		}
	}
	back := e.merge(append([]*State{out}, inner.continues...))
	if back != nil {
		if n.Post != nil {
			back = e.execStmt(back, n.Post, inner)
		}
		e.invHead = iterStart
		e.checkInvariants(back, lc, "inv-pres", n.Pos())
		e.invHead = nil
		if lc != nil && lc.decreases != nil {
			m := e.beginScope()
			tmp := back.clone()
			d1 := e.asInt(e.evalClauseValue(tmp, lc.decreases), nil)
			e.oblige(tmp, "decr", lc.decreases.text, And(Ge(dec0, I(0)), Lt(d1, dec0)), n.Pos(), lc.decreases)
			e.endScope(m)
		}
	}
	cx.returns = append(cx.returns, inner.returns...)
	cx.defers = inner.defers
	return e.merge(append([]*State{exit}, inner.breaks...))
}

// skipLoop: `loop#n skip` -- the loop is not executed symbolically; whatever its body may assign is arbitrary afterwards.
func (e *Engine) skipLoop(st *State, n ast.Node, body ast.Node, extra ...ast.Node) *State {
	p := e.prog.fset.Position(n.Pos())
	e.noteAssumption(fmt.Sprintf("loop at %s:%d skipped (skip clause of a lemma-level contract): its body is not verified, its effects are arbitrary", relRepo(p.Filename), p.Line))
	var ex []ast.Node
	for _, x := range extra {
		if x != nil && !reflect.ValueOf(x).IsNil() {
			ex = append(ex, x)
		}
	}
	e.havocLoopTargets(st, body, ex...)
	return st
}

func (e *Engine) noteTermination(n ast.Node) {
	p := e.prog.fset.Position(n.Pos())
	e.noteAssumption(fmt.Sprintf("termination of loop at %s:%d not proved (no decreases clause)", relRepo(p.Filename), p.Line))
}

func (e *Engine) execUnrolled(st *State, n *ast.ForStmt, cx *Ctx, count int) *State {
	var exits []*State
	cur := st
	for i := 0; i <= count && cur != nil; i++ {
		if n.Cond != nil {
			c := e.name("c", e.asBool(e.eval(cur, n.Cond), n.Cond))
			ex := cur.clone()
			ex.pc = e.name("pc", And(cur.pc, Not(c)))
			exits = append(exits, ex)
			cur.pc = e.name("pc", And(cur.pc, c))
		}
		if i == count {
			e.oblige(cur, "unwind", fmt.Sprintf("loop runs at most %d times", count), tFalse, n.Pos(), nil)
			break
		}
		inner := &Ctx{fnContract: cx.fnContract, loopOrd: cx.loopOrd, ifOrd: cx.ifOrd, closureOrd: cx.closureOrd, results: cx.results, defers: cx.defers}
		out := e.execBlock(cur, n.Body.List, inner)
		cur = e.merge(append([]*State{out}, inner.continues...))
		if cur != nil && n.Post != nil {
			cur = e.execStmt(cur, n.Post, inner)
		}
		exits = append(exits, inner.breaks...)
		cx.returns = append(cx.returns, inner.returns...)
		cx.defers = inner.defers
	}
	return e.merge(exits)
}

func (e *Engine) execRange(st *State, n *ast.RangeStmt, cx *Ctx) *State {
	xt := e.typeOf(n.X)
	var keyObj, valObj *types.Var
	getObj := func(x ast.Expr) *types.Var {
		if x == nil {
			return nil
		}
		id, ok := x.(*ast.Ident)
		if !ok {
			e.fail(n, "range variable is not an identifier")
		}
		if id.Name == "_" {
			return nil
		}
		if o, ok := e.pkg.info.Defs[id].(*types.Var); ok {
			return o
		}
		if o, ok := e.pkg.info.Uses[id].(*types.Var); ok {
			return o
		}
		return nil
	}
	keyObj, valObj = getObj(n.Key), getObj(n.Value)
	lc := e.loopContract(cx, n)
	if lc != nil && lc.skip {
		e.eval(st, n.X)
		for _, o := range []*types.Var{keyObj, valObj} {
			if o != nil {
				if _, ok := st.vars[o]; !ok {
					st.vars[o] = e.zero(st, o.Type())
				}
			}
		}
		return e.skipLoop(st, n, n.Body, n.Key, n.Value)
	}
	switch u := under(xt).(type) {
	case *types.Slice, *types.Array, *types.Pointer, *types.Basic:
		var blk, off, ln T
		var elem types.Type
		isStr := false
		switch uu := u.(type) {
		case *types.Slice:
			sv := e.eval(st, n.X).(SliceV)
			blk, off, ln, elem = sv.blk, sv.off, sv.ln, uu.Elem()
		case *types.Array:
			b, ok := e.addrOf(st, n.X)
			if !ok {
				e.fail(n, "range over non-addressable array")
			}
			blk, off, ln, elem = b, I(0), I(uu.Len()), uu.Elem()
		case *types.Pointer:
			at, ok := under(uu.Elem()).(*types.Array)
			if !ok {
				e.fail(n, "range over pointer to non-array")
			}
			blk, off, ln, elem = e.asInt(e.eval(st, n.X), n.X), I(0), I(at.Len()), at.Elem()
		case *types.Basic:
			if uu.Info()&types.IsString != 0 {
				e.fail(n, "range over string (runes) is outside the subset")
			}
			if uu.Info()&types.IsInteger != 0 {
				// range over integer (go1.22)
				e.fail(n, "range over integer is outside the subset")
			}
			e.fail(n, "unsupported range operand")
		}
		_ = isStr
		idxObj := types.NewVar(n.Pos(), nil, "range_idx", types.Typ[types.Int])
		st.vars[idxObj] = IntV{I(0)}
		var iterObj types.Object
		if sc := e.pkg.info.Scopes[n]; sc != nil {
			iterObj = sc.Lookup("iter_")
		}
		bindHead := func(s *State) {
			iv, _ := s.vars[idxObj].(IntV)
			if keyObj != nil {
				s.vars[keyObj] = IntV{iv.t}
			}
			if iterObj != nil {
				s.vars[iterObj] = IntV{iv.t}
			}
		}
		if keyObj != nil {
			st.vars[keyObj] = IntV{I(0)}
		}
		if valObj != nil {
			if _, ok := st.vars[valObj]; !ok {
				st.vars[valObj] = e.zero(st, valObj.Type())
			}
		}
		bindHead(st)
		e.loopBounds = append(e.loopBounds, st.alloc)
		defer func() { e.loopBounds = e.loopBounds[:len(e.loopBounds)-1] }()
		e.checkInvariants(st, lc, "inv-init", n.Pos())
		pushedLF := e.pushLoopFrame(st, lc)
		defer e.popLoopFrame(pushedLF)
		head := st
		e.havocLoopTargets(head, n.Body)
		e.groundFrameBlk(head, blk)
		i := e.fresh("range_i", SInt)
		head.vars[idxObj] = IntV{i}
		e.assume(head, And(Le(I(0), i), Le(i, ln)), "range index")
		bindHead(head)
		if valObj != nil {
			head.vars[valObj] = e.symbolic(head, "rv_"+valObj.Name(), valObj.Type())
		}
		e.assumeInvariants(head, lc)
		exit := head.clone()
		exit.pc = e.name("pc", And(head.pc, Ge(i, ln)))
		delete(exit.vars, idxObj)
		body := head
		body.pc = e.name("pc", And(head.pc, Lt(i, ln)))
		if valObj != nil {
			body.vars[valObj] = e.loadElemCopy(body, blk, Add(off, i), elem)
		}
		inner := &Ctx{fnContract: cx.fnContract, loopOrd: cx.loopOrd, ifOrd: cx.ifOrd, closureOrd: cx.closureOrd, results: cx.results, defers: cx.defers}
		iterStart := body.clone()
		out := e.execBlock(body, n.Body.List, inner)
		for _, ps := range append([]*State{out}, inner.continues...) {
			if ps != nil {
				if iterObj != nil {
					ps.vars[iterObj] = IntV{i}
				}
				e.checkSteps(ps, iterStart, lc, n.Pos())
			}
		}
		back := e.merge(append([]*State{out}, inner.continues...))
		if back != nil {
			if iterObj != nil {
				back.vars[iterObj] = IntV{i}
			}
			back.vars[idxObj] = IntV{Add(i, I(1))}
			bindHead(back)
			e.invHead = iterStart
			var paths []*State
			for _, ps := range append([]*State{out}, inner.continues...) {
				if ps != nil {
					paths = append(paths, ps)
				}
			}
			if len(paths) >= 2 && len(paths) <= 6 && lc != nil && len(lc.invariants) > 0 {
				// preservation per path through the body: each condition is much simpler than on the merged state
				for _, ps := range paths {
					pc := ps.clone()
					if iterObj != nil {
						pc.vars[iterObj] = IntV{i}
					}
					pc.vars[idxObj] = IntV{Add(i, I(1))}
					bindHead(pc)
					e.checkInvariants(pc, lc, "inv-pres", n.Pos())
				}
			} else {
				e.checkInvariants(back, lc, "inv-pres", n.Pos())
			}
			e.invHead = nil
		}
		cx.returns = append(cx.returns, inner.returns...)
		cx.defers = inner.defers
		outs := append([]*State{exit}, inner.breaks...)
		for _, o := range outs {
			if o != nil {
				delete(o.vars, idxObj)
			}
		}
		return e.merge(outs)
	case *types.Map:
		return e.execRangeMap(st, n, cx, lc, keyObj, valObj, u)
	}
	e.fail(n, "unsupported range over %s", xt)
	return nil
}

func (e *Engine) loadElemCopy(st *State, blk, idx T, elem types.Type) Value {
	return e.loadElem(st, blk, idx, elem)
}

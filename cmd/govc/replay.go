package main

// Counterexample replay: a sat model of a failed obligation is turned into an in-package Go test that
// calls the REAL function with the model's arguments (go test -overlay; nothing is written into /repo)
// and checks the predicted failure (a panic for safety obligations, a false postcondition clause for
// `post` obligations).

import (
	"bytes"
	"context"
	"encoding/json"
	"fmt"
	"go/ast"
	"go/printer"
	"go/token"
	"go/types"
	"os"
	"os/exec"
	"path/filepath"
	"sort"
	"strconv"
	"strings"
	"time"
)

const replayMaxLen = 96

type replayQuery struct {
	terms []string // SMT terms to evaluate
	index map[string]int
}

func (q *replayQuery) add(t T) int {
	if q.index == nil {
		q.index = map[string]int{}
	}
	if i, ok := q.index[t.s]; ok {
		return i
	}
	q.index[t.s] = len(q.terms)
	q.terms = append(q.terms, t.s)
	return len(q.terms) - 1
}

// argBuilder produces Go source for a value of type t whose components are read from the model.
type argBuilder struct {
	e       *Engine
	st      *State // entry state
	q       *replayQuery
	vals    []string // filled after the model query
	imports map[string]string // path -> name
	pkg     *types.Package
	bounds  []T
	ok      bool
	why     string
}

func (b *argBuilder) qualifier(p *types.Package) string {
	if p == b.pkg {
		return ""
	}
	b.imports[p.Path()] = p.Name()
	return p.Name()
}

func (b *argBuilder) typeStr(t types.Type) string { return types.TypeString(t, b.qualifier) }

// plan registers the terms needed for value v of type t and returns a closure producing the Go source.
func (b *argBuilder) plan(v Value, t types.Type, depth int) func() string {
	e := b.e
	if depth > 4 {
		return func() string { return zeroSrc(b.typeStr(t), t) }
	}
	// massutil.Amount: built from its ghost value
	if n, ok := t.(*types.Named); ok && n.Obj().Pkg() != nil && n.Obj().Pkg().Path() == "github.com/massnetorg/mass-core/massutil" && n.Obj().Name() == "Amount" {
		cells := e.flatten(b.st, v, t)
		e.declareUF("gh_amt", "(declare-fun gh_amt (Int) Int)")
		i := b.q.add(app(SInt, "gh_amt", cells[0]))
		b.qualifier(n.Obj().Pkg())
		return func() string {
			val := b.vals[i]
			if strings.HasPrefix(val, "-") {
				return "massutil.Amount{}"
			}
			return fmt.Sprintf("func() massutil.Amount { a, _ := massutil.NewAmountFromUint(%s); return a }()", val)
		}
	}
	switch u := under(t).(type) {
	case *types.Basic:
		switch x := v.(type) {
		case IntV:
			i := b.q.add(x.t)
			return func() string { return fmt.Sprintf("%s(%s)", b.typeStr(t), b.vals[i]) }
		case BoolV:
			i := b.q.add(B2I(x.t))
			return func() string {
				if b.vals[i] == "1" {
					return "true"
				}
				return "false"
			}
		case StrV:
			li := b.q.add(e.slen(x.t))
			b.bounds = append(b.bounds, Le(e.slen(x.t), I(replayMaxLen)))
			var bi []int
			for k := 0; k < replayMaxLen; k++ {
				bi = append(bi, b.q.add(e.sbyte(x.t, I(int64(k)))))
			}
			return func() string {
				n, _ := strconv.Atoi(b.vals[li])
				if n > replayMaxLen {
					n = replayMaxLen
				}
				if n < 0 {
					n = 0
				}
				var sb strings.Builder
				sb.WriteString(b.typeStr(t) + "(\"")
				for k := 0; k < n; k++ {
					c, _ := strconv.Atoi(b.vals[bi[k]])
					fmt.Fprintf(&sb, "\\x%02x", c&0xff)
				}
				sb.WriteString("\")")
				return sb.String()
			}
		}
	case *types.Slice:
		sv, ok := v.(SliceV)
		if !ok {
			break
		}
		if !isByteLike(u.Elem()) {
			// other element kinds: only nil / empty is constructed
			ni := b.q.add(sv.blk)
			return func() string {
				if b.vals[ni] == "0" {
					return "nil"
				}
				return b.typeStr(t) + "{}"
			}
		}
		ni := b.q.add(sv.blk)
		li := b.q.add(sv.ln)
		ci := b.q.add(sv.cp)
		b.bounds = append(b.bounds, Le(sv.ln, I(replayMaxLen)), Le(sv.cp, I(4096)))
		arr := Sel(b.st.Mem, sv.blk)
		var bi []int
		for k := 0; k < replayMaxLen; k++ {
			bi = append(bi, b.q.add(Sel(arr, Add(sv.off, I(int64(k))))))
		}
		return func() string {
			if b.vals[ni] == "0" {
				return "nil"
			}
			n, _ := strconv.Atoi(b.vals[li])
			if n < 0 {
				return "nil"
			}
			extra := 0
			if n > replayMaxLen {
				extra = n - replayMaxLen
				n = replayMaxLen
			}
			if extra > 1<<20 {
				extra = 1 << 20
			}
			var parts []string
			for k := 0; k < n; k++ {
				c, _ := strconv.Atoi(b.vals[bi[k]])
				parts = append(parts, strconv.Itoa(c&0xff))
			}
			lit := b.typeStr(t) + "{" + strings.Join(parts, ", ") + "}"
			if extra > 0 {
				lit = fmt.Sprintf("append(%s, make(%s, %d)...)", lit, b.typeStr(t), extra)
			}
			total := n + extra
			if c, err := strconv.Atoi(b.vals[ci]); err == nil && c > total && c <= 1<<22 {
				// keep the model's spare capacity (slicing beyond len up to cap is legal Go)
				return fmt.Sprintf("append(make(%s, 0, %d), %s...)", b.typeStr(t), c, lit)
			}
			return fmt.Sprintf("append(make(%s, 0, %d), %s...)", b.typeStr(t), total, lit)
		}
	case *types.Array:
		av, ok := v.(ArrV)
		if !ok || !isByteLike(u.Elem()) || u.Len() > 128 {
			break
		}
		arr := Sel(b.st.Mem, av.blk)
		var bi []int
		for k := int64(0); k < u.Len(); k++ {
			bi = append(bi, b.q.add(Sel(arr, I(k))))
		}
		return func() string {
			var parts []string
			for _, i := range bi {
				c, _ := strconv.Atoi(b.vals[i])
				parts = append(parts, strconv.Itoa(c&0xff))
			}
			return b.typeStr(t) + "{" + strings.Join(parts, ", ") + "}"
		}
	case *types.Pointer:
		rv, ok := v.(RefV)
		if !ok {
			break
		}
		ni := b.q.add(rv.t)
		var inner func() string
		switch eu := under(u.Elem()).(type) {
		case *types.Array:
			inner = b.plan(ArrV{rv.t}, u.Elem(), depth+1)
		case *types.Struct:
			_ = eu
			e.quant++
			e.specMode++
			pv := e.loadAt(b.st, rv.t, u.Elem())
			e.specMode--
			e.quant--
			inner = b.plan(pv, u.Elem(), depth+1)
		default:
			e.quant++
			e.specMode++
			pv := e.loadAt(b.st, rv.t, u.Elem())
			e.specMode--
			e.quant--
			in := b.plan(pv, u.Elem(), depth+1)
			ts := b.typeStr(u.Elem())
			inner = func() string { return fmt.Sprintf("func() %s { x := %s; return x }()", ts, in()) }
			return func() string {
				if b.vals[ni] == "0" {
					return "nil"
				}
				return "func() *" + ts + " { x := " + in() + "; return &x }()"
			}
		}
		return func() string {
			if b.vals[ni] == "0" {
				return "nil"
			}
			return "&" + inner()
		}
	case *types.Struct:
		sv, ok := v.(StructV)
		if !ok {
			break
		}
		var names []string
		var subs []func() string
		for i := 0; i < u.NumFields(); i++ {
			f := u.Field(i)
			if !f.Exported() && f.Pkg() != b.pkg {
				continue // cannot be set from the test
			}
			names = append(names, f.Name())
			subs = append(subs, b.plan(sv.f[i], f.Type(), depth+1))
		}
		return func() string {
			var parts []string
			for i := range names {
				parts = append(parts, names[i]+": "+subs[i]())
			}
			return b.typeStr(t) + "{" + strings.Join(parts, ", ") + "}"
		}
	}
	// interfaces, maps, funcs, channels: zero value
	return func() string { return zeroSrc(b.typeStr(t), t) }
}

func zeroSrc(ts string, t types.Type) string {
	switch under(t).(type) {
	case *types.Pointer, *types.Slice, *types.Map, *types.Interface, *types.Signature, *types.Chan:
		return "nil"
	case *types.Struct, *types.Array:
		return ts + "{}"
	case *types.Basic:
		b := under(t).(*types.Basic)
		if b.Info()&types.IsString != 0 {
			return ts + "(\"\")"
		}
		if b.Info()&types.IsBoolean != 0 {
			return "false"
		}
		return ts + "(0)"
	}
	return "nil"
}

// parseGetValue parses z3's ((t v) (t v) ...) answer into the list of values in order.
func parseGetValue(out string, n int) ([]string, bool) {
	i := strings.Index(out, "((")
	if i < 0 {
		return nil, false
	}
	s := out[i:]
	// tokenise s-expression at depth 2
	var vals []string
	depth := 0
	start := -1
	for p := 0; p < len(s); p++ {
		switch s[p] {
		case '(':
			depth++
			if depth == 2 {
				start = p
			}
		case ')':
			if depth == 2 && start >= 0 {
				pair := s[start+1 : p]
				vals = append(vals, lastSexp(pair))
				start = -1
			}
			depth--
			if depth == 0 {
				p = len(s)
			}
		}
	}
	if len(vals) < n {
		return nil, false
	}
	return vals[:n], true
}

// lastSexp returns the value part of "term value" as a decimal string.
func lastSexp(pair string) string {
	pair = strings.TrimSpace(pair)
	if strings.HasSuffix(pair, ")") {
		// value like (- 5)
		d := 0
		for p := len(pair) - 1; p >= 0; p-- {
			if pair[p] == ')' {
				d++
			} else if pair[p] == '(' {
				d--
				if d == 0 {
					v := strings.TrimSpace(pair[p:])
					v = strings.Trim(v, "()")
					f := strings.Fields(v)
					if len(f) == 2 && f[0] == "-" {
						return "-" + f[1]
					}
					return strings.Join(f, "")
				}
			}
		}
	}
	f := strings.Fields(pair)
	return f[len(f)-1]
}

type replayOutcome struct {
	Attempted  bool   `json:"attempted"`
	Reproduced bool   `json:"reproduced"`
	Reason     string `json:"reason,omitempty"`
	TestSource string `json:"test_source,omitempty"`
	TestOutput string `json:"test_output,omitempty"`
	Args       map[string]string `json:"arguments,omitempty"`
}

var safetyKinds = map[string]bool{"bounds": true, "nil": true, "slice": true, "div": true, "make": true, "typeassert": true, "panic": true, "nilmap": true}

// tryReplay attempts to reproduce a failed obligation on the real code.
func tryReplay(prog *Program, res *FuncResult, ob *Oblig, repo string, overlayEdits map[string][]byte) replayOutcome {
	out := replayOutcome{}
	e := res.eng
	fc := res.fc
	if ob.status != "sat" {
		out.Reason = "solver gave no model (" + ob.status + ")"
		return out
	}
	if fc == nil || fc.lit != nil || fc.decl == nil {
		out.Reason = "not a named function"
		return out
	}
	isSafety := safetyKinds[ob.kind] || ob.replayPanic
	if !isSafety && ob.kind != "post" {
		out.Reason = "obligation kind " + ob.kind + " has no direct replay (intermediate assertion)"
		return out
	}
	sig := fc.fn.Type().(*types.Signature)
	params := e.paramObjects(fc)
	b := &argBuilder{e: e, st: res.entryState, q: &replayQuery{}, imports: map[string]string{}, pkg: fc.pkg.Types}
	var builders []func() string
	for _, p := range params {
		builders = append(builders, b.plan(res.entry[p], p.Type(), 0))
	}
	// model query with small-size bounds
	vals, ok := e.queryModel(ob, b.q, b.bounds)
	if !ok {
		vals, ok = e.queryModel(ob, b.q, nil)
	}
	if !ok {
		out.Reason = "could not extract model values"
		return out
	}
	b.vals = vals
	out.Attempted = true
	out.Args = map[string]string{}
	var argNames []string
	var decls strings.Builder
	for i, p := range params {
		name := p.Name()
		if name == "" || name == "_" {
			name = fmt.Sprintf("govcArg%d", i)
		}
		src := builders[i]()
		out.Args[name] = src
		fmt.Fprintf(&decls, "\tvar %s %s = %s\n\t_ = %s\n", name, b.typeStr(p.Type()), src, name)
		argNames = append(argNames, name)
	}
	// the call
	var callExpr string
	if sig.Recv() != nil {
		callExpr = fmt.Sprintf("%s.%s(%s)", argNames[0], fc.fn.Name(), strings.Join(argNames[1:], ", "))
	} else {
		callExpr = fmt.Sprintf("%s(%s)", fc.fn.Name(), strings.Join(argNames, ", "))
	}
	if sig.Variadic() {
		callExpr = strings.TrimSuffix(callExpr, ")") + "...)"
	}
	// result variables named as the contract names them
	nres := sig.Results().Len()
	resNames := make([]string, nres)
	for i := 0; i < nres; i++ {
		resNames[i] = fmt.Sprintf("govcRes%d", i)
	}
	var aliasDecl strings.Builder
	seen := map[string]bool{}
	for _, a := range fc.resAlias {
		if a.idx < nres && !seen[a.obj.Name()] {
			seen[a.obj.Name()] = true
			fmt.Fprintf(&aliasDecl, "\t%s := %s\n\t_ = %s\n", a.obj.Name(), resNames[a.idx], a.obj.Name())
		}
	}
	var body strings.Builder
	var clauseSrc string
	var oldDecls strings.Builder
	if !isSafety {
		if ob.clause == nil {
			out.Reason = "no clause attached"
			return out
		}
		src, olds, why := compileClause(prog, ob.clause, b)
		if why != "" {
			out.Reason = "postcondition not executable: " + why
			out.Attempted = false
			return out
		}
		clauseSrc = src
		for i, o := range olds {
			fmt.Fprintf(&oldDecls, "\tgovcOld%d := %s\n\t_ = govcOld%d\n", i, o, i)
		}
	}
	body.WriteString(decls.String())
	body.WriteString(oldDecls.String())
	if nres > 0 {
		fmt.Fprintf(&body, "\t%s := %s\n", strings.Join(resNames, ", "), callExpr)
		for _, r := range resNames {
			fmt.Fprintf(&body, "\t_ = %s\n", r)
		}
	} else {
		fmt.Fprintf(&body, "\t%s\n", callExpr)
	}
	body.WriteString(aliasDecl.String())
	if isSafety {
		body.WriteString("\tfmt.Println(\"GOVC-REPLAY: returned normally\")\n")
	} else {
		fmt.Fprintf(&body, "\tfmt.Println(\"GOVC-REPLAY: clause\", %s)\n", clauseSrc)
	}
	var imps []string
	b.imports["fmt"] = "fmt"
	b.imports["testing"] = "testing"
	b.imports["reflect"] = "reflect"
	for path, name := range b.imports {
		if name != "fmt" && name != "testing" && name != "reflect" && !strings.Contains(body.String(), name+".") {
			continue
		}
		imps = append(imps, fmt.Sprintf("\t%s %q", name, path))
	}
	sort.Strings(imps)
	testSrc := fmt.Sprintf(`package %s

import (
%s
)

var _ = reflect.TypeOf
var _ = fmt.Sprint

func TestGovcReplay(t *testing.T) {
	defer func() {
		if r := recover(); r != nil {
			fmt.Println("GOVC-REPLAY: panic:", r)
		}
	}()
%s}
%s`, fc.pkg.Types.Name(), strings.Join(imps, "\n"), body.String(), replayHelpers)
	out.TestSource = testSrc
	// run it
	tmp, err := os.MkdirTemp("", "govc-replay-")
	if err != nil {
		out.Reason = err.Error()
		return out
	}
	defer os.RemoveAll(tmp)
	tf := filepath.Join(tmp, "zz_govc_replay_test.go")
	_ = os.WriteFile(tf, []byte(testSrc), 0o644)
	pkgDir := filepath.Dir(prog.fset.Position(fc.decl.Pos()).Filename)
	ov := map[string]map[string]string{"Replace": {filepath.Join(pkgDir, "zz_govc_replay_test.go"): tf}}
	// in-memory mutants must be visible to the replay too
	k := 0
	for path, content := range overlayEdits {
		k++
		mf := filepath.Join(tmp, fmt.Sprintf("mut%d.go", k))
		_ = os.WriteFile(mf, content, 0o644)
		ov["Replace"][path] = mf
	}
	ovb, _ := json.Marshal(ov)
	ovf := filepath.Join(tmp, "overlay.json")
	_ = os.WriteFile(ovf, ovb, 0o644)
	ctx, cancel := context.WithTimeout(context.Background(), 180*time.Second)
	defer cancel()
	rel, _ := filepath.Rel(repo, pkgDir)
	cmd := exec.CommandContext(ctx, "bash", "-c", fmt.Sprintf("ulimit -v 8000000; cd %s && go test -v -overlay %s -vet=off -count=1 -timeout 60s -run '^TestGovcReplay$' ./%s", repo, ovf, rel))
	cmd.Env = append(os.Environ(), "GOFLAGS=-mod=mod", "GOPROXY=off", "GOSUMDB=off", "GOTOOLCHAIN=local")
	var buf bytes.Buffer
	cmd.Stdout = &buf
	cmd.Stderr = &buf
	_ = cmd.Run()
	o := buf.String()
	out.TestOutput = truncate(o, 3000)
	switch {
	case isSafety && strings.Contains(o, "GOVC-REPLAY: panic:"):
		out.Reproduced = true
	case isSafety && strings.Contains(o, "panic:") && !strings.Contains(o, "GOVC-REPLAY: returned normally"):
		out.Reproduced = true
	case !isSafety && strings.Contains(o, "GOVC-REPLAY: clause false"):
		out.Reproduced = true
	case strings.Contains(o, "GOVC-REPLAY:"):
		out.Reason = "the real code did not fail on the model's arguments (aliasing or an over-approximated contract may be involved)"
	default:
		out.Reason = "replay test did not run (build error or unsupported argument construction)"
	}
	return out
}

// queryModel re-solves the obligation (lambda flavour, newest z3) asking for the values of the terms.
func (e *Engine) queryModel(o *Oblig, q *replayQuery, bounds []T) ([]string, bool) {
	save := o.extraFacts
	o.extraFacts = append(append([]T(nil), save...), bounds...)
	text := e.emit(o, true, false)
	o.extraFacts = save
	// symbols of the query terms must be declared: add them to the cone by a dummy assertion
	var sb strings.Builder
	sb.WriteString("(set-option :produce-models true)\n")
	// re-emit with the query terms in the cone
	dummy := make([]T, 0, len(q.terms))
	for _, t := range q.terms {
		dummy = append(dummy, T{"(= " + t + " " + t + ")", SBool})
	}
	o.extraFacts = append(append(append([]T(nil), save...), bounds...), dummy...)
	text = e.emit(o, true, false)
	o.extraFacts = save
	sb.WriteString(text)
	sb.WriteString("(get-value (" + strings.Join(q.terms, " ") + "))\n")
	tmp, err := os.CreateTemp("", "govc-model-*.smt2")
	if err != nil {
		return nil, false
	}
	defer os.Remove(tmp.Name())
	tmp.WriteString(sb.String())
	tmp.Close()
	r := runSolver(context.Background(), solvers[0], tmp.Name(), 20)
	if r.status != "sat" {
		if os.Getenv("GOVC_DEBUG") != "" {
			fmt.Fprintln(os.Stderr, "model query:", r.status, truncate(r.out, 400))
			os.WriteFile("/tmp/govc_model_query.smt2", []byte(sb.String()), 0o644)
		}
		return nil, false
	}
	return parseGetValue(r.out, len(q.terms))
}

// compileClause prints a contract clause as executable Go. old(e) sub-expressions become variables captured
// before the call; returns "" and a reason when the clause uses ghost state.
func compileClause(prog *Program, cl *Clause, b *argBuilder) (string, []string, string) {
	var olds []string
	reason := ""
	var rewrite func(n ast.Node) ast.Node
	copyExpr := func(x ast.Expr) string {
		var sb strings.Builder
		printer.Fprint(&sb, prog.fset, x)
		t := cl.info.TypeOf(x)
		if t != nil {
			if sl, ok := under(t).(*types.Slice); ok && isByteLike(sl.Elem()) {
				return "append([]byte(nil), " + sb.String() + "...)"
			}
		}
		return sb.String()
	}
	ast.Inspect(cl.expr, func(n ast.Node) bool {
		call, ok := n.(*ast.CallExpr)
		if !ok {
			return true
		}
		if id, ok := call.Fun.(*ast.Ident); ok {
			if f, ok := cl.info.Uses[id].(*types.Func); ok && f.Pkg() == nil {
				switch id.Name {
				case "ghost", "ghostb", "ghostu64", "ghosts", "gmap", "has":
					// amt(x) is executable
					if id.Name == "ghost" && len(call.Args) == 2 {
						if bl, ok := call.Args[0].(*ast.BasicLit); ok && bl.Value == `"amt"` {
							return true
						}
					}
					reason = "uses ghost state (" + id.Name + ")"
				case "forall", "exists":
					if lit, ok := call.Args[0].(*ast.FuncLit); ok {
						for _, p := range lit.Type.Params.List {
							if tid, ok := p.Type.(*ast.Ident); !ok || tid.Name != "int" {
								reason = "quantifier over a non-int domain"
							}
						}
					}
				}
			}
		}
		return true
	})
	if reason != "" {
		return "", nil, reason
	}
	_ = rewrite
	// textual rewrite: print the clause, then replace old(...) occurrences found in the AST
	var oldNodes []*ast.CallExpr
	ast.Inspect(cl.expr, func(n ast.Node) bool {
		if call, ok := n.(*ast.CallExpr); ok {
			if id, ok := call.Fun.(*ast.Ident); ok && id.Name == "old" {
				if f, ok := cl.info.Uses[id].(*types.Func); ok && f.Pkg() == nil {
					oldNodes = append(oldNodes, call)
					return false
				}
			}
		}
		return true
	})
	var sb strings.Builder
	printer.Fprint(&sb, prog.fset, cl.expr)
	src := sb.String()
	for i, on := range oldNodes {
		var ob strings.Builder
		printer.Fprint(&ob, prog.fset, on)
		olds = append(olds, copyExpr(on.Args[0]))
		src = strings.Replace(src, ob.String(), fmt.Sprintf("govcOld%d", i), 1)
	}
	// universe helpers get a prefix so they cannot clash with package identifiers
	for _, h := range []string{"forall", "exists", "fresh", "sameSlice", "unchanged", "be16", "be32", "be64", "le16", "le32", "le64", "mathint", "bytesEq", "strOf", "isErr", "mathdiv", "mathmod", "b2i", "sbyteAt", "ghost"} {
		src = replaceIdentCall(src, h, "govc_"+h)
	}
	return src, olds, ""
}

func replaceIdentCall(src, name, repl string) string {
	var sb strings.Builder
	i := 0
	for i < len(src) {
		j := strings.Index(src[i:], name+"(")
		if j < 0 {
			sb.WriteString(src[i:])
			break
		}
		j += i
		if j > 0 && (isIdentByte(src[j-1]) || src[j-1] == '.') {
			sb.WriteString(src[i : j+1])
			i = j + 1
			continue
		}
		sb.WriteString(src[i:j])
		sb.WriteString(repl + "(")
		i = j + len(name) + 1
	}
	return sb.String()
}

var _ = token.NoPos

const replayHelpers = `
func govc_bytes(x interface{}) []byte {
	v := reflect.ValueOf(x)
	for v.Kind() == reflect.Ptr {
		if v.IsNil() {
			return nil
		}
		v = v.Elem()
	}
	switch v.Kind() {
	case reflect.String:
		return []byte(v.String())
	case reflect.Slice, reflect.Array:
		out := make([]byte, v.Len())
		for i := 0; i < v.Len(); i++ {
			out[i] = byte(v.Index(i).Uint())
		}
		return out
	}
	panic("govc: not a byte sequence")
}
func govc_int(x interface{}) int {
	v := reflect.ValueOf(x)
	switch v.Kind() {
	case reflect.Int, reflect.Int8, reflect.Int16, reflect.Int32, reflect.Int64:
		return int(v.Int())
	case reflect.Uint, reflect.Uint8, reflect.Uint16, reflect.Uint32, reflect.Uint64, reflect.Uintptr:
		return int(v.Uint())
	case reflect.Bool:
		if v.Bool() {
			return 1
		}
		return 0
	}
	panic("govc: not an integer")
}
func govc_forall(f interface{}) bool {
	g := f.(func(int) bool)
	for i := -2; i <= 300; i++ {
		if !g(i) {
			return false
		}
	}
	return true
}
func govc_exists(f interface{}) bool {
	g := f.(func(int) bool)
	for i := -2; i <= 300; i++ {
		if g(i) {
			return true
		}
	}
	return false
}
func govc_fresh(x interface{}) bool { return true }
func govc_unchanged(x interface{}) bool { return true }
func govc_sameSlice(a, b interface{}) bool {
	x, y := reflect.ValueOf(a), reflect.ValueOf(b)
	if x.Len() != y.Len() {
		return false
	}
	if x.Len() == 0 {
		return x.IsNil() == y.IsNil()
	}
	return x.Pointer() == y.Pointer()
}
func govc_beN(x interface{}, off int, n int, big bool) uint64 {
	b := govc_bytes(x)
	var r uint64
	for i := 0; i < n; i++ {
		var c byte
		if off+i >= 0 && off+i < len(b) {
			c = b[off+i]
		}
		if big {
			r = r<<8 | uint64(c)
		} else {
			r |= uint64(c) << (8 * uint(i))
		}
	}
	return r
}
func govc_be16(x interface{}, off int) uint16 { return uint16(govc_beN(x, off, 2, true)) }
func govc_be32(x interface{}, off int) uint32 { return uint32(govc_beN(x, off, 4, true)) }
func govc_be64(x interface{}, off int) uint64 { return govc_beN(x, off, 8, true) }
func govc_le16(x interface{}, off int) uint16 { return uint16(govc_beN(x, off, 2, false)) }
func govc_le32(x interface{}, off int) uint32 { return uint32(govc_beN(x, off, 4, false)) }
func govc_le64(x interface{}, off int) uint64 { return govc_beN(x, off, 8, false) }
func govc_mathint(x interface{}) int      { return govc_int(x) }
func govc_b2i(b bool) int {
	if b {
		return 1
	}
	return 0
}
func govc_sbyteAt(x interface{}, i int) byte {
	b := govc_bytes(x)
	if i < 0 || i >= len(b) {
		return 0
	}
	return b[i]
}
func govc_bytesEq(a interface{}, ao int, b interface{}, bo int, n int) bool {
	x, y := govc_bytes(a), govc_bytes(b)
	for i := 0; i < n; i++ {
		if ao+i < 0 || ao+i >= len(x) || bo+i < 0 || bo+i >= len(y) {
			return false
		}
		if x[ao+i] != y[bo+i] {
			return false
		}
	}
	return true
}
func govc_strOf(x interface{}) string { return string(govc_bytes(x)) }
func govc_isErr(x interface{}) bool   { return x != nil }
func govc_mathdiv(a, b int) int {
	q := a / b
	if (a%b != 0) && ((a < 0) != (b < 0)) {
		q--
	}
	return q
}
func govc_mathmod(a, b int) int { return a - b*govc_mathdiv(a, b) }
func govc_ghost(name string, args ...interface{}) int {
	if name == "amt" && len(args) == 1 {
		v := reflect.ValueOf(args[0])
		m := v.MethodByName("IntValue")
		if m.IsValid() {
			defer func() { recover() }()
			return int(m.Call(nil)[0].Int())
		}
	}
	panic("govc: ghost state is not executable")
}
`

package main

// Thorough tier: must-fail canaries.  After the property has been checked on /repo's working tree, every stored seeded
// change of that property which the quick check is known to report (seeded/<id>/meta.json, detected_by.status ==
// "VIOLATION") is applied to a scratch copy of the working tree and the property is checked there again: the check
// must fail.  A canary that is no longer reported means the machinery lost strength (a vacuous contract, an engine
// regression); it is reported on stdout and in the evidence file but does not turn a passing check into a violation:
// the property itself held on everything explored.

import (
	"encoding/json"
	"fmt"
	"os"
	"os/exec"
	"path/filepath"
	"sort"
	"strings"
)

type canaryResult struct {
	Seed     string `json:"seed"`
	Status   string `json:"status"` // detected | MISSED | patch does not apply
	Failed   string `json:"first_failed_obligation,omitempty"`
	Expected string `json:"expected_first_failed_obligation,omitempty"`
}

func runCanaries(o checkOpts) []canaryResult {
	metas, _ := filepath.Glob(filepath.Join(verifRoot(), "seeded", o.property+"-*", "meta.json"))
	sort.Strings(metas)
	type meta struct {
		Seed       string `json:"seed"`
		DetectedBy struct {
			Status string   `json:"status"`
			Failed []string `json:"failed_obligations"`
		} `json:"detected_by"`
	}
	var todo []meta
	var dirs []string
	for _, m := range metas {
		b, err := os.ReadFile(m)
		if err != nil {
			continue
		}
		var mm meta
		if json.Unmarshal(b, &mm) != nil || mm.DetectedBy.Status != "VIOLATION" {
			continue
		}
		todo = append(todo, mm)
		dirs = append(dirs, filepath.Dir(m))
	}
	if len(todo) == 0 {
		return nil
	}
	tmp, err := os.MkdirTemp("", "govc-canary-")
	if err != nil {
		return nil
	}
	defer os.RemoveAll(tmp)
	scratch := filepath.Join(tmp, "repo")
	// a copy of the working tree (without the git metadata): a few megabytes
	if out, err := exec.Command("sh", "-c", fmt.Sprintf("mkdir -p %q && cd %q && tar --exclude=.git -cf - . | tar -xf - -C %q", scratch, o.repo, scratch)).CombinedOutput(); err != nil {
		fmt.Printf("canaries: cannot copy the working tree: %v %s\n", err, out)
		return nil
	}
	var res []canaryResult
	for i, mm := range todo {
		patch := filepath.Join(dirs[i], "patch.diff")
		r := canaryResult{Seed: mm.Seed}
		if len(mm.DetectedBy.Failed) > 0 {
			r.Expected = mm.DetectedBy.Failed[0]
		}
		if out, err := exec.Command("git", "-C", scratch, "apply", patch).CombinedOutput(); err != nil {
			r.Status = "patch does not apply: " + strings.TrimSpace(string(out))
			res = append(res, r)
			continue
		}
		oc := runCheck(checkOpts{property: o.property, tier: "quick", repo: scratch, noEvidence: true, quiet: true, seed: o.seed})
		if len(oc.failed) > 0 {
			r.Status = "detected"
			r.Failed = oc.failed[0].name
		} else {
			r.Status = "MISSED"
		}
		res = append(res, r)
		exec.Command("git", "-C", scratch, "apply", "-R", patch).Run()
	}
	return res
}

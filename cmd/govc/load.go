package main

// Loading /repo with go/packages (tag verif) and binding //@ contract blocks to functions.

import (
	"encoding/json"
	"go/constant"
	"fmt"
	"go/ast"
	"go/parser"
	"go/token"
	"go/types"
	"os"
	"path/filepath"
	"regexp"
	"sort"
	"strconv"
	"strings"

	"golang.org/x/tools/go/packages"
)

const repoModule = "massnet.org/mass-wallet"

type Clause struct {
	kind   string // requires ensures invariant decreases modifies
	props  []string
	text   string // source text (sugar form)
	expr   ast.Expr
	info   *types.Info
	where  string // file:line of the //@ line
	fired  int    // number of obligations/assumptions generated (vacuity guard)
	label  string
	ownProps []string // properties written on the clause itself
	assume bool // "assume"-style trusted clause (listed in evidence)
}

type GuardClause struct {
	when *Clause
	spec *Clause
}

type LoopContract struct {
	modifies   []*Clause // loop#n modifies ...: what the body may change among memory existing at loop entry
	hasModifies bool
	steps      []*Clause // per-iteration postconditions: old() = state at the head of the same iteration
	invariants []*Clause
	decreases  *Clause
	unroll     int
	skipHasReturn bool
	skip       bool // loop#n skip: the loop is replaced by an arbitrary change of what its body may assign (lemma-level contracts)
	modifiesHeap bool
	used       bool
}

type FuncContract struct {
	deadCount int
	ignore    []string // callees whose contracts are not used in this body
	only      []string // if non-empty: the only callees whose contracts are used in this body
	theories  []string // built-in theories switched on for this body ("numerals")
	safetyOnly bool // keep only panic-freedom obligations
	assumeFrame bool // the declared frame is what call sites use; in the body it is assumed, not proved (frame obligations dropped)
	standalone bool // verified on its own; ignored at call sites
	opaque    []string // callees treated as unknown code (never expanded, contract not used)
	dbonly    []string // callees assumed to change only database buckets and Go maps (results arbitrary)
	cbObserves map[string]string // callback <param> observes <ghost>
	asserts   map[ast.Stmt][]*Clause // at "<stmt>" assert P
	expand    []string // callees expanded from source in this body
	key      string
	props    []string
	requires []*Clause
	ensures  []*Clause
	modifies []*Clause // expressions naming pointers / slices whose targets may change
	modAll   bool      // modifies *
	callbacks []*Clause // callback <param> preserves <expr>
	guards   map[int][]*GuardClause // if#n guard [when P ::] spec : the if condition is equivalent to spec (under P)
	loops    map[int]*LoopContract
	closures map[int]*FuncContract
	trusted  bool // body not verified; contract assumed (listed)
	pure     bool
	inline   bool // always inline at call sites instead of using the contract
	nopanic  bool // emit panic-freedom obligations (default true for verified functions)
	lemma    bool
	where    string
	ghostResults []string

	fn   *types.Func
	decl *ast.FuncDecl
	lit  *ast.FuncLit // for closures
	pkg  *packages.Package
	ext  bool
	resAlias []resAlias
	extern bool // contract on code outside /repo (assumed)
	iface bool
	extParams []*types.Var // for ext contracts: the params of the synthetic signature (recv first)
	extResults []*types.Var
	calls  string // "once" / "*" for callback parameters: name of param -> mode
}

type resAlias struct {
	obj *types.Var
	idx int
}

type Program struct {
	fset   *token.FileSet
	pkgs   map[string]*packages.Package // by path (all, incl. deps)
	roots  []*packages.Package
	funcs  map[string]*FuncInfo // FullName -> decl
	contracts map[string]*FuncContract
	globalsAssigned map[types.Object]bool
	knownPosts      map[string]bool
	globalConstInit map[types.Object]constant.Value // package variables with a constant initialiser
	errs   []string
	lockOut map[string]map[string][]string // govc lock: collect headers instead of consulting the lock
	rebound []string
	tallies *[]string // names of tally ghost maps (see tallyMaps)
	bindIssues []bindIssue // contract clauses that no longer bind (reported as cannot-decide, verification continues)
}

type bindIssue struct {
	key string
	msg string
}

type FuncInfo struct {
	fn   *types.Func
	decl *ast.FuncDecl
	pkg  *packages.Package
}

var repoPkgPatterns = []string{
	"./api", "./masswallet", "./masswallet/utils", "./masswallet/txmgr", "./masswallet/db",
	"./masswallet/db/ldb", "./masswallet/keystore", "./masswallet/keystore/hdkeychain",
	"./masswallet/keystore/snacl", "./masswallet/keystore/zero", "./config", "./masswallet/ifc",
}

func loadProgram(repo string, patterns []string, overlay map[string][]byte) (*Program, error) {
	fset := token.NewFileSet()
	cfg := &packages.Config{
		Mode: packages.NeedName | packages.NeedFiles | packages.NeedCompiledGoFiles | packages.NeedSyntax |
			packages.NeedTypes | packages.NeedTypesInfo | packages.NeedDeps | packages.NeedImports | packages.NeedTypesSizes,
		Dir:        repo,
		Fset:       fset,
		BuildFlags: []string{"-tags=verif"},
		Overlay:    overlay,
		Env: append(os.Environ(), "GOFLAGS=-mod=mod", "GOPROXY=off", "GOSUMDB=off", "GOTOOLCHAIN=local"),
		ParseFile: func(fset *token.FileSet, filename string, src []byte) (*ast.File, error) {
			mode := parser.AllErrors | parser.SkipObjectResolution
			if strings.HasPrefix(filename, repo+string(os.PathSeparator)) {
				mode |= parser.ParseComments
			}
			return parser.ParseFile(fset, filename, src, mode)
		},
	}
	installUniverse()
	roots, err := packages.Load(cfg, patterns...)
	if err != nil {
		return nil, err
	}
	p := &Program{fset: fset, pkgs: map[string]*packages.Package{}, roots: roots,
		funcs: map[string]*FuncInfo{}, contracts: map[string]*FuncContract{}, globalsAssigned: map[types.Object]bool{}, globalConstInit: map[types.Object]constant.Value{}}
	var nerr int
	packages.Visit(roots, nil, func(pk *packages.Package) {
		p.pkgs[pk.PkgPath] = pk
		for _, e := range pk.Errors {
			if strings.HasPrefix(pk.PkgPath, repoModule) {
				p.errs = append(p.errs, e.Error())
				nerr++
			}
		}
	})
	if nerr > 0 {
		return p, fmt.Errorf("load errors in /repo packages: %s", strings.Join(p.errs, "; "))
	}
	for _, pk := range p.pkgs {
		if pk.TypesInfo == nil {
			continue
		}
		for _, f := range pk.Syntax {
			for _, d := range f.Decls {
				fd, ok := d.(*ast.FuncDecl)
				if !ok {
					continue
				}
				obj, _ := pk.TypesInfo.Defs[fd.Name].(*types.Func)
				if obj == nil {
					continue
				}
				p.funcs[obj.FullName()] = &FuncInfo{fn: obj, decl: fd, pkg: pk}
			}
		}
	}
	// which package-level variables of /repo packages are ever assigned outside their declaration
	for _, pk := range p.pkgs {
		if pk.TypesInfo == nil {
			continue
		}
		for _, f := range pk.Syntax {
			for _, d := range f.Decls {
				if gd, ok := d.(*ast.GenDecl); ok && gd.Tok == token.VAR {
					for _, sp := range gd.Specs {
						vs, ok := sp.(*ast.ValueSpec)
						if !ok || len(vs.Values) != len(vs.Names) {
							continue
						}
						for i, nm := range vs.Names {
							if o, ok := pk.TypesInfo.Defs[nm].(*types.Var); ok {
								if tv, ok := pk.TypesInfo.Types[vs.Values[i]]; ok && tv.Value != nil {
									p.globalConstInit[o] = tv.Value
								}
							}
						}
					}
				}
				// assignments made by a package's own init() happen before any function under contract runs
				inInit := false
				if fd, ok := d.(*ast.FuncDecl); ok && fd.Recv == nil && fd.Name.Name == "init" {
					inInit = true
				}
				mark := func(x ast.Expr, isAddr bool) {
					var id *ast.Ident
					switch y := x.(type) {
					case *ast.Ident:
						id = y
					case *ast.SelectorExpr:
						id = y.Sel
					}
					if id == nil {
						return
					}
					o, _ := pk.TypesInfo.Uses[id].(*types.Var)
					if o == nil || o.Pkg() == nil || o.Parent() != o.Pkg().Scope() {
						return
					}
					if inInit && !isAddr && o.Pkg() == pk.Types {
						return
					}
					p.globalsAssigned[o] = true
				}
				ast.Inspect(d, func(n ast.Node) bool {
					switch s := n.(type) {
					case *ast.AssignStmt:
						for _, l := range s.Lhs {
							mark(l, false)
						}
					case *ast.IncDecStmt:
						mark(s.X, false)
					case *ast.UnaryExpr:
						if s.Op == token.AND {
							mark(s.X, true)
						}
					}
					return true
				})
			}
		}
	}
	return p, nil
}

// ---------------------------------------------------------------------------------------
// Universe helpers available inside contract expressions.

var universeInstalled bool

func installUniverse() {
	if universeInstalled {
		return
	}
	universeInstalled = true
	anyT := types.Universe.Lookup("any").Type()
	boolT := types.Typ[types.Bool]
	intT := types.Typ[types.Int]
	mk := func(name string, params []types.Type, res types.Type, variadic bool) {
		var ps []*types.Var
		for i, t := range params {
			ps = append(ps, types.NewVar(token.NoPos, nil, fmt.Sprintf("a%d", i), t))
		}
		var rs []*types.Var
		if res != nil {
			rs = append(rs, types.NewVar(token.NoPos, nil, "", res))
		}
		sig := types.NewSignatureType(nil, nil, nil, types.NewTuple(ps...), types.NewTuple(rs...), variadic)
		types.Universe.Insert(types.NewFunc(token.NoPos, nil, name, sig))
	}
	// old[T any](x T) T
	{
		tn := types.NewTypeName(token.NoPos, nil, "T", nil)
		tp := types.NewTypeParam(tn, anyT)
		sig := types.NewSignatureType(nil, nil, []*types.TypeParam{tp},
			types.NewTuple(types.NewVar(token.NoPos, nil, "x", tp)),
			types.NewTuple(types.NewVar(token.NoPos, nil, "", tp)), false)
		types.Universe.Insert(types.NewFunc(token.NoPos, nil, "old", sig))
	}
	_ = types.NewSlice(types.Typ[types.Byte])
	// ghostOf[T any](name string, args ...any) T : uninterpreted, state-independent observer with a typed result
	{
		tn := types.NewTypeName(token.NoPos, nil, "T", nil)
		tp := types.NewTypeParam(tn, anyT)
		sig := types.NewSignatureType(nil, nil, []*types.TypeParam{tp},
			types.NewTuple(types.NewVar(token.NoPos, nil, "name", types.Typ[types.String]), types.NewVar(token.NoPos, nil, "args", types.NewSlice(anyT))),
			types.NewTuple(types.NewVar(token.NoPos, nil, "", tp)), true)
		types.Universe.Insert(types.NewFunc(token.NoPos, nil, "ghostOf", sig))
	}
	// valAt[T any](m any, k any) T : the value stored in map m under key k (k may be the string form of a byte-array key)
	{
		tn := types.NewTypeName(token.NoPos, nil, "T", nil)
		tp := types.NewTypeParam(tn, anyT)
		sig := types.NewSignatureType(nil, nil, []*types.TypeParam{tp},
			types.NewTuple(types.NewVar(token.NoPos, nil, "m", anyT), types.NewVar(token.NoPos, nil, "k", anyT)),
			types.NewTuple(types.NewVar(token.NoPos, nil, "", tp)), false)
		types.Universe.Insert(types.NewFunc(token.NoPos, nil, "valAt", sig))
	}
	// isType[T any](x any) bool : the dynamic type of interface value x is exactly T
	{
		tn := types.NewTypeName(token.NoPos, nil, "T", nil)
		tp := types.NewTypeParam(tn, anyT)
		sig := types.NewSignatureType(nil, nil, []*types.TypeParam{tp},
			types.NewTuple(types.NewVar(token.NoPos, nil, "x", anyT)),
			types.NewTuple(types.NewVar(token.NoPos, nil, "", types.Typ[types.Bool])), false)
		types.Universe.Insert(types.NewFunc(token.NoPos, nil, "isType", sig))
	}
	// cur[T any](x T) T : inside old(...), evaluate x in the current state
	{
		tn := types.NewTypeName(token.NoPos, nil, "T", nil)
		tp := types.NewTypeParam(tn, anyT)
		sig := types.NewSignatureType(nil, nil, []*types.TypeParam{tp},
			types.NewTuple(types.NewVar(token.NoPos, nil, "x", tp)),
			types.NewTuple(types.NewVar(token.NoPos, nil, "", tp)), false)
		types.Universe.Insert(types.NewFunc(token.NoPos, nil, "cur", sig))
	}
	mk("forall", []types.Type{anyT}, boolT, false)
	mk("exists", []types.Type{anyT}, boolT, false)
	mk("fresh", []types.Type{anyT}, boolT, false)
	mk("loopfresh", []types.Type{anyT}, boolT, false) // allocated since the innermost enclosing loop was entered
	mk("sameSlice", []types.Type{anyT, anyT}, boolT, false)
	mk("unchanged", []types.Type{anyT}, boolT, false)
	mk("be16", []types.Type{anyT, intT}, types.Typ[types.Uint16], false)
	mk("be32", []types.Type{anyT, intT}, types.Typ[types.Uint32], false)
	mk("be64", []types.Type{anyT, intT}, types.Typ[types.Uint64], false)
	mk("le16", []types.Type{anyT, intT}, types.Typ[types.Uint16], false)
	mk("le32", []types.Type{anyT, intT}, types.Typ[types.Uint32], false)
	mk("le64", []types.Type{anyT, intT}, types.Typ[types.Uint64], false)
	mk("mathint", []types.Type{anyT}, intT, false) // value as unbounded integer (no wrap in spec arithmetic)
	mk("bytesEq", []types.Type{anyT, intT, anyT, intT, intT}, boolT, false) // bytesEq(a, aoff, b, boff, n)
	mk("strOf", []types.Type{anyT}, types.Typ[types.String], false)       // the string whose bytes are the slice
	mk("isErr", []types.Type{anyT}, boolT, false)
	mk("ghost", []types.Type{types.Typ[types.String], types.NewSlice(anyT)}, intT, true)  // ghost("name", args...) uninterpreted Int observer
	mk("ghostb", []types.Type{types.Typ[types.String], types.NewSlice(anyT)}, boolT, true) // Bool observer
	mk("mathdiv", []types.Type{intT, intT}, intT, false)
	mk("mathmod", []types.Type{intT, intT}, intT, false)
	mk("pure", []types.Type{anyT}, anyT, false)
	mk("b2i", []types.Type{boolT}, intT, false)
	mk("before", []types.Type{anyT, anyT}, boolT, false) // object *p lies entirely below object *q in memory (allocated earlier)
	mk("allocated", []types.Type{anyT}, boolT, false)
	mk("sameMapExcept", []types.Type{anyT, types.NewSlice(anyT)}, boolT, true) // map m equals old(m) except at the given keys
	mk("ggets", []types.Type{types.Typ[types.String], anyT}, types.Typ[types.String], false)
	mk("sameBlock", []types.Type{anyT, anyT}, boolT, false)
	mk("gget", []types.Type{types.Typ[types.String], anyT}, intT, false)             // integer ghost map name[key]
	mk("gsame", []types.Type{types.Typ[types.String]}, boolT, false)                 // ghost map unchanged since old
	mk("gsameExcept", []types.Type{types.Typ[types.String], types.NewSlice(anyT)}, boolT, true) // unchanged except at the given keys
	mk("disjoint", []types.Type{anyT, anyT}, boolT, false)                          // two slices live in different blocks
	mk("sameRef", []types.Type{anyT, anyT}, boolT, false)
	mk("visited", []types.Type{anyT}, boolT, false)
	mk("hasPrefix", []types.Type{anyT, anyT}, boolT, false)
	mk("lexLess", []types.Type{anyT, anyT}, boolT, false)
	mk("ghostu64", []types.Type{types.Typ[types.String], types.NewSlice(anyT)}, types.Typ[types.Uint64], true)
	mk("ghosts", []types.Type{types.Typ[types.String], types.NewSlice(anyT)}, types.Typ[types.String], true)
	mk("sbyteAt", []types.Type{anyT, intT}, types.Typ[types.Byte], false)
	mk("has", []types.Type{anyT, anyT}, boolT, false)
	// theory of decimal numerals over strings (see numeral.go)
	mk("decval", []types.Type{types.Typ[types.String]}, intT, false) // value of the byte string read as a base-10 numeral (Horner over byte-48)
	mk("alldigits", []types.Type{types.Typ[types.String]}, boolT, false) // every byte is an ASCII digit
	mk("pow10", []types.Type{intT}, intT, false)
	mk("gmap", []types.Type{types.Typ[types.String], types.NewSlice(anyT)}, types.NewMap(types.Typ[types.String], types.Typ[types.String]), true)
}

// ---------------------------------------------------------------------------------------
// Contract text.

var clauseKinds = map[string]bool{"guard": true, "callback": true, "step": true, "requires": true, "ensures": true, "invariant": true, "decreases": true,
	"modifies": true, "props": true, "trusted": true, "pure": true, "inline": true, "unroll": true, "lemma": true,
	"assume": true, "nopanic": true, "dead": true, "expand": true, "ignore": true, "only": true, "assert": true, "heapframe": true, "skip": true, "dbonly": true, "theory": true, "opaque": true, "standalone": true, "safetyonly": true, "assumeframe": true}

var headRe = regexp.MustCompile(`^func\s+(.+)$`)
var scopeRe = regexp.MustCompile(`^(loop|closure|if)#(\d+)\s+(.*)$`)
var clauseRe = regexp.MustCompile(`^(?:(loop|closure|if)#(\d+)\s+)?([a-z]+)(?:\[([A-Za-z0-9, ]+)\])?(?:\s+(.*))?$`)

type rawClause struct {
	fromIfat bool
	scope   string // "", "loop", "closure", "if", "at"
	atText  string // at "<statement source>": the statement the assert is placed before
	ord     int
	sub     *rawClause // for closure#n loop#m ...
	kind    string
	props   []string
	text    string
	where   string
}

type rawBlock struct {
	key     string
	where   string
	clauses []*rawClause
}

type macro struct {
	name   string
	params []string
	body   string
}

var macros = map[string]*macro{}
var macroDefRe = regexp.MustCompile(`^define\s+([A-Za-z_][A-Za-z0-9_]*)\(([^)]*)\)\s*=\s*(.*)$`)

// expandMacros substitutes `name(args)` by the parenthesised macro body, repeatedly.
func expandMacros(s string) (string, error) {
	for round := 0; round < 12; round++ {
		changed := false
		for name, m := range macros {
			for {
				idx := findMacroCall(s, name)
				if idx < 0 {
					break
				}
				open := idx + len(name)
				cl := matchParen(s, open)
				if cl < 0 {
					return "", fmt.Errorf("unbalanced macro call %s", name)
				}
				var args []string
				if strings.TrimSpace(s[open+1:cl]) != "" {
					args = splitTopLevel(s[open+1:cl], ',')
				}
				if len(args) != len(m.params) {
					return "", fmt.Errorf("macro %s expects %d arguments, got %d", name, len(m.params), len(args))
				}
				body := m.body
				body = substIdents(body, m.params, args)
				s = s[:idx] + "(" + body + ")" + s[cl+1:]
				changed = true
			}
		}
		if !changed {
			return s, nil
		}
	}
	return "", fmt.Errorf("macro expansion does not terminate")
}

func findMacroCall(s, name string) int {
	from := 0
	for {
		i := strings.Index(s[from:], name+"(")
		if i < 0 {
			return -1
		}
		i += from
		if i == 0 || !(isIdentByte(s[i-1]) || s[i-1] == '.') {
			return i
		}
		from = i + 1
	}
}

func substIdents(body string, params, args []string) string {
	var b strings.Builder
	i := 0
	for i < len(body) {
		c := body[i]
		if c == '"' || c == '\'' || c == '`' {
			j := skipQuoted(body, i)
			b.WriteString(body[i:j])
			i = j
			continue
		}
		if isIdentByte(c) && !(c >= '0' && c <= '9') {
			j := i
			for j < len(body) && isIdentByte(body[j]) {
				j++
			}
			tok := body[i:j]
			repl := tok
			if i == 0 || body[i-1] != '.' {
				for k, p := range params {
					if strings.TrimSpace(p) == tok {
						repl = "(" + strings.TrimSpace(args[k]) + ")"
					}
				}
			}
			b.WriteString(repl)
			i = j
			continue
		}
		b.WriteByte(c)
		i++
	}
	return b.String()
}

func parseContractLines(lines []string, wheres []string) ([]*rawBlock, error) {
	var blocks []*rawBlock
	var cur *rawBlock
	var last *rawClause
	var lastMacro *macro
	for i, ln := range lines {
		t := strings.TrimSpace(ln)
		if t == "" {
			last = nil
			lastMacro = nil
			continue
		}
		if strings.HasPrefix(t, "#") { // comment inside contract file
			continue
		}
		if m := macroDefRe.FindStringSubmatch(t); m != nil {
			var ps []string
			if strings.TrimSpace(m[2]) != "" {
				for _, p := range strings.Split(m[2], ",") {
					ps = append(ps, strings.TrimSpace(p))
				}
			}
			lastMacro = &macro{name: m[1], params: ps, body: m[3]}
			macros[m[1]] = lastMacro
			last = nil
			cur = nil
			continue
		}
		if lastMacro != nil && cur == nil && headRe.FindStringSubmatch(t) == nil {
			lastMacro.body += " " + t
			continue
		}
		lastMacro = nil
		if m := headRe.FindStringSubmatch(t); m != nil {
			cur = &rawBlock{key: strings.TrimSpace(m[1]), where: wheres[i]}
			blocks = append(blocks, cur)
			last = nil
			continue
		}
		if cur == nil {
			return nil, fmt.Errorf("%s: contract line outside a func block: %q", wheres[i], t)
		}
		// closure#k prefix may be followed by loop#m
		rc, ok := parseClauseLine(t)
		if ok {
			rc.where = wheres[i]
			cur.clauses = append(cur.clauses, rc)
			last = rc
			for last.sub != nil {
				last = last.sub
			}
			continue
		}
		if last == nil {
			return nil, fmt.Errorf("%s: cannot parse contract line %q", wheres[i], t)
		}
		last.text += " " + t
	}
	return blocks, nil
}

var ifatRe = regexp.MustCompile(`^ifat\s+"((?:[^"\\]|\\.)*)"(?:#(\d+))?\s+(.*)$`)
var atRe = regexp.MustCompile(`^at\s+"((?:[^"\\]|\\.)*)"(?:#(\d+))?\s+(.*)$`)

func parseClauseLine(t string) (*rawClause, bool) {
	if m := ifatRe.FindStringSubmatch(t); m != nil {
		sub, ok := parseClauseLine(strings.TrimSpace(m[3]))
		if !ok || sub.kind != "guard" {
			return nil, false
		}
		n := 1
		if m[2] != "" {
			n, _ = strconv.Atoi(m[2])
		}
		return &rawClause{scope: "ifat", ord: n, atText: strings.ReplaceAll(m[1], `\"`, `"`), sub: sub}, true
	}
	if m := atRe.FindStringSubmatch(t); m != nil {
		sub, ok := parseClauseLine(strings.TrimSpace(m[3]))
		if !ok || sub.kind != "assert" {
			return nil, false
		}
		n := 1
		if m[2] != "" {
			n, _ = strconv.Atoi(m[2])
		}
		return &rawClause{scope: "at", ord: n, atText: strings.ReplaceAll(m[1], `\"`, `"`), sub: sub}, true
	}
	if sm := scopeRe.FindStringSubmatch(t); sm != nil {
		// scope prefix; the remainder is again a clause line (closure#1 closure#2 loop#1 invariant ...)
		sub, ok := parseClauseLine(strings.TrimSpace(sm[3]))
		if !ok {
			return nil, false
		}
		n, _ := strconv.Atoi(sm[2])
		return &rawClause{scope: sm[1], ord: n, sub: sub}, true
	}
	m := clauseRe.FindStringSubmatch(t)
	if m == nil {
		return nil, false
	}
	if !clauseKinds[m[3]] {
		return nil, false
	}
	rc := &rawClause{kind: m[3], text: strings.TrimSpace(m[5])}
	if m[4] != "" {
		for _, p := range strings.Split(m[4], ",") {
			rc.props = append(rc.props, strings.TrimSpace(p))
		}
	}
	return rc, true
}

// desugar turns the surface syntax (==>, forall x T :: body, exists, ===) into a Go expression.
func desugar(s string) (string, error) {
	s = strings.TrimSpace(s)
	// quantifier at the start of this (sub)expression
	for _, q := range []string{"forall", "exists"} {
		if strings.HasPrefix(s, q+" ") {
			idx := topLevelIndex(s, "::")
			if idx < 0 {
				return "", fmt.Errorf("quantifier without '::' in %q", s)
			}
			binder := strings.TrimSpace(s[len(q):idx])
			body, err := desugar(s[idx+2:])
			if err != nil {
				return "", err
			}
			return fmt.Sprintf("%s(func(%s) bool { return %s })", q, binder, body), nil
		}
	}
	// top-level ==> (right associative, lowest precedence)
	if idx := topLevelIndex(s, "==>"); idx >= 0 {
		l, err := desugar(s[:idx])
		if err != nil {
			return "", err
		}
		r, err := desugar(s[idx+3:])
		if err != nil {
			return "", err
		}
		return fmt.Sprintf("(!(%s) || (%s))", l, r), nil
	}
	// top-level && / || with quantifier or ==> in operands are handled by recursing into parentheses
	var b strings.Builder
	i := 0
	for i < len(s) {
		c := s[i]
		if c == '"' || c == '\'' || c == '`' {
			j := skipQuoted(s, i)
			b.WriteString(s[i:j])
			i = j
			continue
		}
		if c == '(' {
			j := matchParen(s, i)
			if j < 0 {
				return "", fmt.Errorf("unbalanced parentheses in %q", s)
			}
			inner := s[i+1 : j]
			if strings.Contains(inner, "==>") || strings.Contains(inner, "forall ") || strings.Contains(inner, "exists ") || strings.Contains(inner, "===") {
				// could be an argument list: split on top-level commas
				parts := splitTopLevel(inner, ',')
				for k, p := range parts {
					d, err := desugar(p)
					if err != nil {
						return "", err
					}
					parts[k] = d
				}
				b.WriteString("(" + strings.Join(parts, ", ") + ")")
			} else {
				b.WriteString(s[i : j+1])
			}
			i = j + 1
			continue
		}
		b.WriteByte(c)
		i++
	}
	out := b.String()
	// a === b  (only at top level of this fragment, operands are simple)
	if idx := topLevelIndex(out, "==="); idx >= 0 {
		return fmt.Sprintf("sameSlice(%s, %s)", strings.TrimSpace(out[:idx]), strings.TrimSpace(out[idx+3:])), nil
	}
	return out, nil
}

func skipQuoted(s string, i int) int {
	q := s[i]
	j := i + 1
	for j < len(s) {
		if s[j] == '\\' && q != '`' {
			j += 2
			continue
		}
		if s[j] == q {
			return j + 1
		}
		j++
	}
	return len(s)
}

func matchParen(s string, i int) int {
	depth := 0
	for j := i; j < len(s); j++ {
		switch s[j] {
		case '"', '\'', '`':
			j = skipQuoted(s, j) - 1
		case '(', '[', '{':
			depth++
		case ')', ']', '}':
			depth--
			if depth == 0 {
				return j
			}
		}
	}
	return -1
}

func topLevelIndex(s, tok string) int {
	depth := 0
	for j := 0; j < len(s); j++ {
		switch s[j] {
		case '"', '\'', '`':
			j = skipQuoted(s, j) - 1
			continue
		case '(', '[', '{':
			depth++
		case ')', ']', '}':
			depth--
		}
		if depth == 0 && strings.HasPrefix(s[j:], tok) {
			if tok == "==>" || tok == "::" || tok == "===" {
				return j
			}
			return j
		}
	}
	return -1
}

func splitTopLevel(s string, sep byte) []string {
	var parts []string
	depth := 0
	start := 0
	for j := 0; j < len(s); j++ {
		switch s[j] {
		case '"', '\'', '`':
			j = skipQuoted(s, j) - 1
			continue
		case '(', '[', '{':
			depth++
		case ')', ']', '}':
			depth--
		}
		if depth == 0 && s[j] == sep {
			parts = append(parts, s[start:j])
			start = j + 1
		}
	}
	parts = append(parts, s[start:])
	return parts
}

// ---------------------------------------------------------------------------------------
// Binding.

func (p *Program) collectContractBlocks() ([]*rawBlock, map[*rawBlock]*packages.Package, error) {
	var all []*rawBlock
	owner := map[*rawBlock]*packages.Package{}
	var pkgPaths []string
	for path := range p.pkgs {
		if strings.HasPrefix(path, repoModule) {
			pkgPaths = append(pkgPaths, path)
		}
	}
	sort.Strings(pkgPaths)
	for _, path := range pkgPaths {
		pk := p.pkgs[path]
		for _, f := range pk.Syntax {
			fname := p.fset.Position(f.Pos()).Filename
			if !strings.HasPrefix(filepath.Base(fname), "zz_contracts") {
				continue
			}
			var lines, wheres []string
			for _, cg := range f.Comments {
				for _, c := range cg.List {
					if !strings.HasPrefix(c.Text, "//@") {
						continue
					}
					pos := p.fset.Position(c.Pos())
					lines = append(lines, strings.TrimPrefix(c.Text, "//@"))
					wheres = append(wheres, fmt.Sprintf("%s:%d", relRepo(pos.Filename), pos.Line))
				}
				lines = append(lines, "")
				wheres = append(wheres, "")
			}
			blocks, err := parseContractLines(lines, wheres)
			if err != nil {
				return nil, nil, err
			}
			for _, b := range blocks {
				owner[b] = pk
			}
			all = append(all, blocks...)
		}
	}
	return all, owner, nil
}

func relRepo(f string) string {
	if i := strings.Index(f, "/repo/"); i >= 0 {
		return f[i+6:]
	}
	return f
}

// findFunc resolves "Name", "(*T).Name", "T.Name" inside package pk.
func (p *Program) findFunc(pk *packages.Package, key string) *FuncInfo {
	key = strings.TrimSpace(key)
	cands := []string{
		pk.PkgPath + "." + key,
	}
	if strings.HasPrefix(key, "(*") {
		// (*T).M
		cands = append(cands, "(*"+pk.PkgPath+"."+key[2:])
	} else if i := strings.Index(key, "."); i > 0 {
		cands = append(cands, "("+pk.PkgPath+"."+key[:i]+")"+key[i:])
		cands = append(cands, "(*"+pk.PkgPath+"."+key[:i]+")"+key[i:])
	}
	for _, c := range cands {
		if fi := p.funcs[c]; fi != nil {
			return fi
		}
	}
	return nil
}

func (p *Program) bindContracts() error {
	blocks, owner, err := p.collectContractBlocks()
	if err != nil {
		return err
	}
	for _, b := range blocks {
		if err := p.bindBlock(owner[b], b, false); err != nil {
			return err
		}
	}
	return nil
}

// resolveIfaceMethod finds "(pkgpath.T).M" or (relative to pk) "T.M" where T is an interface type.
func (p *Program) resolveIfaceMethod(pk *packages.Package, key string) (*packages.Package, *types.Func, *ast.Field) {
	key = strings.TrimSpace(key)
	var pkgPath, tname, mname string
	if strings.HasPrefix(key, "(") {
		i := strings.Index(key, ").")
		if i < 0 {
			return nil, nil, nil
		}
		inner := strings.TrimPrefix(key[1:i], "*")
		mname = key[i+2:]
		j := strings.LastIndex(inner, ".")
		if j < 0 {
			if pk == nil {
				return nil, nil, nil
			}
			pkgPath, tname = pk.PkgPath, inner
		} else {
			pkgPath, tname = inner[:j], inner[j+1:]
		}
	} else {
		i := strings.Index(key, ".")
		if i < 0 || pk == nil {
			return nil, nil, nil
		}
		pkgPath, tname, mname = pk.PkgPath, key[:i], key[i+1:]
	}
	tp := p.pkgs[pkgPath]
	if tp == nil || tp.Types == nil {
		return nil, nil, nil
	}
	tn, ok := tp.Types.Scope().Lookup(tname).(*types.TypeName)
	if !ok {
		return nil, nil, nil
	}
	it, ok := tn.Type().Underlying().(*types.Interface)
	if !ok {
		return nil, nil, nil
	}
	for i := 0; i < it.NumMethods(); i++ {
		m := it.Method(i)
		if m.Name() != mname {
			continue
		}
		// find the syntax of the method (it may come from an embedded interface of the same package)
		var field *ast.Field
		for _, f := range tp.Syntax {
			ast.Inspect(f, func(n ast.Node) bool {
				if itf, ok := n.(*ast.InterfaceType); ok {
					for _, fl := range itf.Methods.List {
						for _, nm := range fl.Names {
							if tp.TypesInfo.Defs[nm] == types.Object(m) {
								field = fl
							}
						}
					}
				}
				return field == nil
			})
		}
		if field == nil {
			return nil, nil, nil
		}
		return tp, m, field
	}
	return nil, nil, nil
}

func (p *Program) bindBlock(pk *packages.Package, b *rawBlock, ext bool) error {
	var fi *FuncInfo
	if pk != nil {
		fi = p.findFunc(pk, b.key)
	}
	if fi == nil {
		fi = p.funcs[strings.TrimSpace(b.key)]
	}
	if fi != nil {
		if _, dup := p.contracts[fi.fn.FullName()]; dup {
			return fmt.Errorf("%s: duplicate contract for %s", b.where, fi.fn.FullName())
		}
		fc := &FuncContract{key: fi.fn.FullName(), fn: fi.fn, decl: fi.decl, pkg: fi.pkg, where: b.where,
			loops: map[int]*LoopContract{}, closures: map[int]*FuncContract{}, nopanic: true}
		if fi.decl.Body == nil {
			return fmt.Errorf("%s: %s has no body", b.where, fc.key)
		}
		if err := p.fillContract(fc, b.clauses, fi.decl.Body, fi.decl.Type, nil); err != nil {
			return err
		}
		if ext || !strings.HasPrefix(fi.pkg.PkgPath, repoModule) {
			fc.trusted = true
			fc.extern = true
		}
		p.contracts[fc.key] = fc
		return nil
	}
	tp, m, field := p.resolveIfaceMethod(pk, b.key)
	if m == nil {
		where := "the loaded packages"
		if pk != nil {
			where = pk.PkgPath
		}
		p.bindIssues = append(p.bindIssues, bindIssue{b.key, fmt.Sprintf("%s: contract for %q does not bind to any function in %s", b.where, b.key, where)})
		return nil
	}
	if _, dup := p.contracts[m.FullName()]; dup {
		return fmt.Errorf("%s: duplicate contract for %s", b.where, m.FullName())
	}
	// synthetic scope inside the file scope of the interface declaration
	var fileScope *types.Scope
	for i := 0; i < tp.Types.Scope().NumChildren(); i++ {
		c := tp.Types.Scope().Child(i)
		if c.Contains(field.Pos()) {
			fileScope = c
		}
	}
	if fileScope == nil {
		return fmt.Errorf("%s: no file scope for %s", b.where, m.FullName())
	}
	scope := types.NewScope(fileScope, field.Pos(), field.End(), "contract of "+m.FullName())
	sig := m.Type().(*types.Signature)
	fc := &FuncContract{key: m.FullName(), fn: m, pkg: tp, where: b.where, loops: map[int]*LoopContract{}, closures: map[int]*FuncContract{},
		trusted: true, ext: true, extern: !strings.HasPrefix(tp.PkgPath, repoModule), iface: true}
	recv := types.NewVar(field.Pos(), tp.Types, "recv", sig.Recv().Type())
	scope.Insert(recv)
	fc.extParams = append(fc.extParams, recv)
	for i := 0; i < sig.Params().Len(); i++ {
		pv := sig.Params().At(i)
		name := pv.Name()
		if name == "" || name == "_" {
			name = fmt.Sprintf("p%d", i)
		}
		v := types.NewVar(field.Pos(), tp.Types, name, pv.Type())
		scope.Insert(v)
		fc.extParams = append(fc.extParams, v)
	}
	res := sig.Results()
	for i := 0; i < res.Len(); i++ {
		rv := res.At(i)
		name := rv.Name()
		if name == "" || name == "_" {
			name = "result"
			if res.Len() > 1 {
				name = fmt.Sprintf("result%d", i)
			}
			if i == res.Len()-1 && types.Identical(rv.Type(), types.Universe.Lookup("error").Type()) {
				name = "err"
			}
		}
		v := types.NewVar(field.Pos(), tp.Types, name, rv.Type())
		scope.Insert(v)
		fc.extResults = append(fc.extResults, v)
		fc.resAlias = append(fc.resAlias, resAlias{v, i})
		if i == 0 && res.Len() == 2 && name == "result0" {
			v2 := types.NewVar(field.Pos(), tp.Types, "result", rv.Type())
			scope.Insert(v2)
			fc.resAlias = append(fc.resAlias, resAlias{v2, i})
		}
	}
	for _, rc := range b.clauses {
		if rc.scope == "" && rc.kind == "props" {
			fc.props = strings.Fields(strings.ReplaceAll(rc.text, ",", " "))
		}
	}
	pos := field.Pos()
	for _, rc := range b.clauses {
		if rc.scope != "" {
			return fmt.Errorf("%s: loop/closure clauses on an interface method", rc.where)
		}
		switch rc.kind {
		case "props", "trusted":
		case "pure":
			fc.pure = true
		case "requires", "ensures":
			cl, err := p.checkClause(fc, rc, rc.where, pos)
			if err != nil {
				return err
			}
			if rc.kind == "requires" {
				fc.requires = append(fc.requires, cl)
			} else {
				fc.ensures = append(fc.ensures, cl)
			}
		case "modifies":
			if strings.TrimSpace(rc.text) == "*" {
				fc.modAll = true
				continue
			}
			if strings.TrimSpace(rc.text) == "nothing" {
				continue
			}
			for _, part := range splitTopLevel(rc.text, ',') {
				sub := &rawClause{kind: "modifies", text: strings.TrimSpace(part)}
				cl, err := p.checkClauseAny(fc, sub, rc.where, pos)
				if err != nil {
					return err
				}
				fc.modifies = append(fc.modifies, cl)
			}
		default:
			return fmt.Errorf("%s: clause kind %q not allowed on an interface method", rc.where, rc.kind)
		}
	}
	p.contracts[fc.key] = fc
	return nil
}

// loadExtContracts reads /verif/contracts/ext/*.spec: assumed contracts on code outside /repo.
func (p *Program) loadExtContracts(dir string) error {
	files, _ := filepath.Glob(filepath.Join(dir, "*.spec"))
	sort.Strings(files)
	for _, f := range files {
		data, err := os.ReadFile(f)
		if err != nil {
			return err
		}
		var lines, wheres []string
		for i, ln := range strings.Split(string(data), "\n") {
			t := strings.TrimSpace(ln)
			if strings.HasPrefix(t, "//@") {
				t = strings.TrimPrefix(t, "//@")
			} else if strings.HasPrefix(t, "//") {
				continue
			}
			lines = append(lines, t)
			wheres = append(wheres, fmt.Sprintf("contracts/ext/%s:%d", filepath.Base(f), i+1))
		}
		blocks, err := parseContractLines(lines, wheres)
		if err != nil {
			return err
		}
		for _, b := range blocks {
			if err := p.bindBlock(nil, b, true); err != nil {
				return err
			}
		}
	}
	return nil
}

// ---- ordinal lock: loop#n / if#n clauses are anchored by ordinal.  /verif/contracts/ordinals.lock records, for every
// such clause, the header text of the statement it was written for.  When an unrelated loop or if is inserted above
// (the ordinals shift) the clause is re-bound to the statement that still carries the recorded header; when the header
// itself was edited (no statement carries it any more) the ordinal is kept, so an edit of the loop condition is still
// checked against the contract.
var ordinalLock map[string]map[string][]string // function -> "loop"/"if" -> headers in source order when the contracts were written
var ordinalLockLoaded bool

func loadOrdinalLock() {
	if ordinalLockLoaded {
		return
	}
	ordinalLockLoaded = true
	b, err := os.ReadFile(filepath.Join(verifRoot(), "contracts", "ordinals.lock"))
	if err != nil {
		return
	}
	_ = json.Unmarshal(b, &ordinalLock)
}

func (p *Program) stmtHeader(n ast.Node) string {
	var sb strings.Builder
	switch s := n.(type) {
	case *ast.ForStmt:
		c := *s
		c.Body = &ast.BlockStmt{}
		printNode(&sb, p.fset, &c)
	case *ast.RangeStmt:
		c := *s
		c.Body = &ast.BlockStmt{}
		printNode(&sb, p.fset, &c)
	case *ast.IfStmt:
		printNode(&sb, p.fset, s.Cond)
	}
	return strings.Join(strings.Fields(sb.String()), " ")
}

// alignOrdinals maps every old ordinal (1-based, index i of old) to a current ordinal: a longest common subsequence of
// the two header lists pins the unchanged statements; an old statement whose header no longer occurs (it was edited in
// place) takes the position that keeps it between its aligned neighbours when exactly one current statement lies there.
func alignOrdinals(old, cur []string) []int {
	n, m := len(old), len(cur)
	lcs := make([][]int, n+1)
	for i := range lcs {
		lcs[i] = make([]int, m+1)
	}
	for i := n - 1; i >= 0; i-- {
		for j := m - 1; j >= 0; j-- {
			if old[i] == cur[j] {
				lcs[i][j] = lcs[i+1][j+1] + 1
			} else if lcs[i+1][j] >= lcs[i][j+1] {
				lcs[i][j] = lcs[i+1][j]
			} else {
				lcs[i][j] = lcs[i][j+1]
			}
		}
	}
	out := make([]int, n)
	i, j := 0, 0
	for i < n && j < m {
		if old[i] == cur[j] {
			out[i] = j + 1
			i++
			j++
		} else if lcs[i+1][j] >= lcs[i][j+1] {
			i++
		} else {
			j++
		}
	}
	// unaligned old statements: squeeze between aligned neighbours
	for i := 0; i < n; i++ {
		if out[i] != 0 {
			continue
		}
		lo := 0
		for k := i - 1; k >= 0; k-- {
			if out[k] != 0 {
				lo = out[k]
				break
			}
		}
		hi := m + 1
		gapOld := 1
		for k := i + 1; k < n; k++ {
			if out[k] != 0 {
				hi = out[k]
				break
			}
			gapOld++
		}
		for k := i - 1; k >= 0 && out[k] == 0; k-- {
			gapOld++
		}
		if hi-lo-1 == gapOld {
			// as many current statements as old ones in the gap: keep their order
			pos := 0
			for k := i - 1; k >= 0 && out[k] == 0; k-- {
				pos++
			}
			out[i] = lo + 1 + pos
		}
	}
	return out
}

// rebindOrdinal returns the ordinal to use for a clause written for <kind>#ord of function key.
func (p *Program) rebindOrdinal(key, kind string, ord int, headers []string) int {
	loadOrdinalLock()
	if p.lockOut != nil {
		if p.lockOut[key] == nil {
			p.lockOut[key] = map[string][]string{}
		}
		p.lockOut[key][kind] = headers
		return ord
	}
	old := ordinalLock[key][kind]
	if len(old) == 0 || ord < 1 || ord > len(old) {
		return ord
	}
	same := len(old) == len(headers)
	if same {
		for i := range old {
			if old[i] != headers[i] {
				same = false
			}
		}
	}
	if same {
		return ord
	}
	al := alignOrdinals(old, headers)
	if n := al[ord-1]; n != 0 && n != ord {
		msg := fmt.Sprintf("%s: %s#%d re-bound to %s#%d (statements were inserted or removed above it)", key, kind, ord, kind, n)
		dup := false
		for _, r := range p.rebound {
			if r == msg {
				dup = true
			}
		}
		if !dup {
			p.rebound = append(p.rebound, msg)
		}
		return n
	} else if n == 0 {
		return ord
	}
	return ord
}

// loopsOf lists for/range statements of a body in source order, not descending into function literals.
func loopsOf(body ast.Node) []ast.Stmt {
	var out []ast.Stmt
	ast.Inspect(body, func(n ast.Node) bool {
		switch s := n.(type) {
		case *ast.FuncLit:
			if ast.Node(s) != body {
				return false
			}
		case *ast.ForStmt:
			out = append(out, s)
		case *ast.RangeStmt:
			out = append(out, s)
		}
		return true
	})
	return out
}

// ifsOf lists if statements of a body in source order (else-if chains count separately), not descending into function literals.
func ifsOf(body ast.Node) []*ast.IfStmt {
	var out []*ast.IfStmt
	ast.Inspect(body, func(n ast.Node) bool {
		switch s := n.(type) {
		case *ast.FuncLit:
			if ast.Node(s) != body {
				return false
			}
		case *ast.IfStmt:
			out = append(out, s)
		}
		return true
	})
	return out
}

func closuresOf(body ast.Node) []*ast.FuncLit {
	var out []*ast.FuncLit
	ast.Inspect(body, func(n ast.Node) bool {
		if fl, ok := n.(*ast.FuncLit); ok && ast.Node(fl) != body {
			out = append(out, fl)
			return false
		}
		return true
	})
	return out
}

func loopBody(s ast.Stmt) *ast.BlockStmt {
	switch l := s.(type) {
	case *ast.ForStmt:
		return l.Body
	case *ast.RangeStmt:
		return l.Body
	}
	return nil
}

func (p *Program) fillContract(fc *FuncContract, clauses []*rawClause, body *ast.BlockStmt, ftype *ast.FuncType, lit *ast.FuncLit) error {
	pk := fc.pkg
	loops := loopsOf(body)
	clos := closuresOf(body)
	// make `result` available for unnamed single results
	var sig *types.Signature
	if lit != nil {
		sig, _ = pk.TypesInfo.TypeOf(lit).(*types.Signature)
	} else {
		sig = fc.fn.Type().(*types.Signature)
	}
	scope := pk.TypesInfo.Scopes[ftype]
	if scope != nil && sig != nil {
		res := sig.Results()
		errT := types.Universe.Lookup("error").Type()
		alias := func(name string, i int) {
			if o, ok := scope.Lookup(name).(*types.Var); ok {
				if types.Identical(o.Type(), res.At(i).Type()) {
					fc.resAlias = append(fc.resAlias, resAlias{o, i})
				}
				return
			}
			v := types.NewVar(ftype.Pos(), pk.Types, name, res.At(i).Type())
			scope.Insert(v)
			fc.resAlias = append(fc.resAlias, resAlias{v, i})
		}
		for i := 0; i < res.Len(); i++ {
			r := res.At(i)
			if r.Name() != "" && r.Name() != "_" {
				fc.resAlias = append(fc.resAlias, resAlias{r, i})
				continue
			}
			if res.Len() == 1 {
				alias("result", i)
			} else {
				alias(fmt.Sprintf("result%d", i), i)
				if i == 0 && res.Len() == 2 && types.Identical(res.At(1).Type(), errT) {
					alias("result", i)
				}
			}
			if i == res.Len()-1 && types.Identical(r.Type(), errT) {
				alias("err", i)
			}
		}
	}
	closureClauses := map[int][]*rawClause{}
	for _, rc := range clauses {
		if rc.scope == "" && rc.kind == "props" {
			fc.props = strings.Fields(strings.ReplaceAll(rc.text, ",", " "))
		}
	}
	for _, rc := range clauses {
		switch rc.scope {
		case "closure":
			if rc.ord < 1 || rc.ord > len(clos) {
				p.bindIssues = append(p.bindIssues, bindIssue{fc.key, fmt.Sprintf("%s: %s has no closure#%d", rc.where, fc.key, rc.ord)})
				continue
			}
			rc.sub.where = rc.where
			closureClauses[rc.ord] = append(closureClauses[rc.ord], rc.sub)
			continue
		case "at":
			// at "<statement>"[#k] assert P: proved, then assumed, immediately before the k-th statement of the
			// body whose source text is <statement> (whitespace-insensitive)
			var hits []ast.Stmt
			want := strings.Join(strings.Fields(rc.atText), " ")
			ast.Inspect(body, func(n ast.Node) bool {
				if st, ok := n.(ast.Stmt); ok {
					switch st.(type) {
					case *ast.BlockStmt:
					default:
						var sb strings.Builder
						printNode(&sb, p.fset, st)
						got := strings.Join(strings.Fields(sb.String()), " ")
						if got == want || (strings.HasSuffix(want, "...") && strings.HasPrefix(got, strings.TrimSuffix(want, "..."))) {
							hits = append(hits, st)
						}
					}
				}
				return true
			})
			if rc.ord < 1 || rc.ord > len(hits) {
				p.bindIssues = append(p.bindIssues, bindIssue{fc.key, fmt.Sprintf("%s: %s has no statement #%d `%s`", rc.where, fc.key, rc.ord, rc.atText)})
				continue
			}
			cl, err := p.checkClause(fc, rc.sub, rc.where, hits[rc.ord-1].Pos())
			if err != nil {
				p.bindIssues = append(p.bindIssues, bindIssue{fc.key, err.Error()})
				continue
			}
			if fc.asserts == nil {
				fc.asserts = map[ast.Stmt][]*Clause{}
			}
			fc.asserts[hits[rc.ord-1]] = append(fc.asserts[hits[rc.ord-1]], cl)
			continue
		case "ifat":
			// ifat "<statement>"[#k] guard ...: the if statement whose then-branch directly contains the k-th statement
			// with that source text (anchoring by a statement of the body keeps the clause attached when the condition
			// itself or the number of earlier ifs changes)
			want := strings.Join(strings.Fields(rc.atText), " ")
			var owners []*ast.IfStmt
			ast.Inspect(body, func(n ast.Node) bool {
				ifs, ok := n.(*ast.IfStmt)
				if !ok {
					return true
				}
				for _, st := range ifs.Body.List {
					var sb strings.Builder
					printNode(&sb, p.fset, st)
					got := strings.Join(strings.Fields(sb.String()), " ")
					if got == want || (strings.HasSuffix(want, "...") && strings.HasPrefix(got, strings.TrimSuffix(want, "..."))) {
						owners = append(owners, ifs)
					}
				}
				return true
			})
			if rc.ord < 1 || rc.ord > len(owners) {
				p.bindIssues = append(p.bindIssues, bindIssue{fc.key, fmt.Sprintf("%s: %s has no if statement #%d whose body contains `%s`", rc.where, fc.key, rc.ord, rc.atText)})
				continue
			}
			ord := 0
			for i, s := range ifsOf(body) {
				if s == owners[rc.ord-1] {
					ord = i + 1
				}
			}
			if ord == 0 {
				p.bindIssues = append(p.bindIssues, bindIssue{fc.key, fmt.Sprintf("%s: if statement of `%s` lies inside a function literal", rc.where, rc.atText)})
				continue
			}
			rc.scope, rc.ord, rc.fromIfat = "if", ord, true
			fallthrough
		case "if":
			ifs := ifsOf(body)
			if !rc.fromIfat {
				var hs []string
				for _, x := range ifs {
					hs = append(hs, p.stmtHeader(x))
				}
				rc.ord = p.rebindOrdinal(fc.key, "if", rc.ord, hs)
			}
			if rc.ord < 1 || rc.ord > len(ifs) {
				p.bindIssues = append(p.bindIssues, bindIssue{fc.key, fmt.Sprintf("%s: %s has no if#%d", rc.where, fc.key, rc.ord)})
				continue
			}
			if rc.sub.kind != "guard" {
				return fmt.Errorf("%s: only `guard` clauses are allowed on if#n", rc.where)
			}
			ifs0 := ifs[rc.ord-1]
			pos := ifs0.Body.Lbrace // scope just before the body: the init statement's variables are visible
			text := rc.sub.text
			var whenCl *Clause
			if idx := topLevelIndex(text, "::"); idx >= 0 && strings.HasPrefix(strings.TrimSpace(text), "when ") {
				w := &rawClause{kind: "guard", props: rc.sub.props, text: strings.TrimSpace(strings.TrimPrefix(strings.TrimSpace(text[:idx]), "when "))}
				cl, err := p.checkClause(fc, w, rc.where, pos)
				if err != nil {
					p.bindIssues = append(p.bindIssues, bindIssue{fc.key, err.Error()})
					continue
				}
				whenCl = cl
				text = strings.TrimSpace(text[idx+2:])
			}
			sp := &rawClause{kind: "guard", props: rc.sub.props, text: text}
			cl, err := p.checkClause(fc, sp, rc.where, pos)
			if err != nil {
				p.bindIssues = append(p.bindIssues, bindIssue{fc.key, err.Error()})
				continue
			}
			if fc.guards == nil {
				fc.guards = map[int][]*GuardClause{}
			}
			fc.guards[rc.ord] = append(fc.guards[rc.ord], &GuardClause{when: whenCl, spec: cl})
			continue
		case "loop":
			{
				var hs []string
				for _, l := range loops {
					hs = append(hs, p.stmtHeader(l))
				}
				rc.ord = p.rebindOrdinal(fc.key, "loop", rc.ord, hs)
			}
			if rc.ord < 1 || rc.ord > len(loops) {
				p.bindIssues = append(p.bindIssues, bindIssue{fc.key, fmt.Sprintf("%s: %s has no loop#%d", rc.where, fc.key, rc.ord)})
				continue
			}
			lc := fc.loops[rc.ord]
			if lc == nil {
				lc = &LoopContract{}
				fc.loops[rc.ord] = lc
			}
			sub := rc.sub
			pos := loopBody(loops[rc.ord-1]).Lbrace + 1
			// iter_ : the 0-based iteration index of a range loop, usable in loop clauses
			if rs, ok := loops[rc.ord-1].(*ast.RangeStmt); ok {
				if sc := pk.TypesInfo.Scopes[rs]; sc != nil && sc.Lookup("iter_") == nil {
					sc.Insert(types.NewVar(rs.Pos(), pk.Types, "iter_", types.Typ[types.Int]))
				}
			}
			switch sub.kind {
			case "invariant":
				cl, err := p.checkClause(fc, sub, rc.where, pos)
				if err != nil {
					p.bindIssues = append(p.bindIssues, bindIssue{fc.key, err.Error()})
					continue
				}
				lc.invariants = append(lc.invariants, cl)
			case "step":
				endPos := loopBody(loops[rc.ord-1]).Rbrace
				cl, err := p.checkClause(fc, sub, rc.where, endPos)
				if err != nil {
					p.bindIssues = append(p.bindIssues, bindIssue{fc.key, err.Error()})
					continue
				}
				lc.steps = append(lc.steps, cl)
			case "decreases":
				cl, err := p.checkClause(fc, sub, rc.where, pos)
				if err != nil {
					p.bindIssues = append(p.bindIssues, bindIssue{fc.key, err.Error()})
					continue
				}
				lc.decreases = cl
			case "modifies":
				lc.hasModifies = true
				if strings.TrimSpace(sub.text) != "nothing" {
					for _, part := range splitTopLevel(sub.text, ',') {
						ms := &rawClause{kind: "modifies", text: strings.TrimSpace(part)}
						cl, err := p.checkClauseAny(fc, ms, rc.where, loops[rc.ord-1].Pos())
						if err != nil {
							p.bindIssues = append(p.bindIssues, bindIssue{fc.key, err.Error()})
							continue
						}
						lc.modifies = append(lc.modifies, cl)
					}
				}
			case "skip":
				// loop#n skip: the body is not executed symbolically; after the loop everything its body may assign is
				// arbitrary.  Only for lemma-level contracts: needs `nopanic off`, and no return statement inside the loop
				// when the function has postconditions (those returns would go unchecked)
				hasRet := false
				ast.Inspect(loopBody(loops[rc.ord-1]), func(n ast.Node) bool {
					if _, ok := n.(*ast.FuncLit); ok {
						return false
					}
					if _, ok := n.(*ast.ReturnStmt); ok {
						hasRet = true
					}
					return true
				})
				lc.skip = true
				lc.skipHasReturn = hasRet
			case "unroll":
				n, err := strconv.Atoi(sub.text)
				if err != nil {
					return fmt.Errorf("%s: bad unroll count", rc.where)
				}
				lc.unroll = n
			default:
				return fmt.Errorf("%s: clause kind %q not allowed on a loop", rc.where, sub.kind)
			}
			continue
		}
		switch rc.kind {
		case "props":
			fc.props = strings.Fields(strings.ReplaceAll(rc.text, ",", " "))
		case "trusted":
			fc.trusted = true
		case "pure":
			fc.pure = true
		case "inline":
			fc.inline = true
		case "lemma":
			fc.lemma = true
		case "nopanic":
			fc.nopanic = rc.text != "off"
		case "expand":
			// expand <func>: calls of that function in this body are expanded from its source instead of being
			// replaced by its contract (used for db.View / db.Update with a function-literal argument)
			fc.expand = append(fc.expand, strings.Fields(rc.text)...)
		case "ignore":
			// ignore <func>...: in this body, calls of these functions are treated as calls without a contract
			// (arbitrary results, no precondition to prove, nothing of their postcondition assumed)
			fc.ignore = append(fc.ignore, strings.Fields(rc.text)...)
		case "only":
			// only <func>...: in this body, contracts are used only for these callees; every other call with a
			// contract is treated as a call without one (lemma-level contracts on large functions)
			fc.only = append(fc.only, strings.Fields(rc.text)...)
		case "theory":
			// theory numerals: the generator's lemmas about decimal numerals are added at string operations of this body
			// theory strlen: strOf(...) under a quantifier carries len(strOf(b)) == len(b)
			fc.theories = append(fc.theories, strings.Fields(rc.text)...)
		case "assumeframe":
			// assumeframe: call sites use the declared `modifies` frame, the body is verified without frame obligations
			// (as under `modifies *`).  For lemma-level contracts on a function that used to be a trusted boundary: its
			// frame stays an assumption (listed in the evidence), its asserts are proved.
			fc.assumeFrame = true
		case "safetyonly":
			// safetyonly: only the panic-freedom obligations of this body are kept (callee preconditions, frames and the
			// like are not checked): a thin safety-only contract
			fc.safetyOnly = true
		case "standalone":
			// standalone: the body is verified against this contract, but call sites do not use it (they treat the
			// function as they would without a contract: expanded when small, unknown code otherwise).  Used for the
			// thin safety-only contracts generated by `govc sweep -emit`, so that adding them cannot change any other proof.
			fc.standalone = true
		case "opaque":
			// opaque <func>...: calls of these functions are neither expanded from source nor replaced by a contract:
			// arbitrary results, everything may change (used for goroutine hand-shakes over channels in lemma-level contracts)
			fc.opaque = append(fc.opaque, strings.Fields(rc.text)...)
		case "dbonly":
			// dbonly <func>...: in this body these callees are assumed to change nothing but database buckets and Go
			// maps (no object in memory); results arbitrary, no precondition proved, nothing of their postcondition used
			fc.dbonly = append(fc.dbonly, strings.Fields(rc.text)...)
		case "dead":
			// dead returns n: exactly n return statements are unreachable under the callee contracts (defensive
			// error checks after calls that cannot fail there); the count is checked, not ordinals, so that adding
			// or reordering returns does not re-target the clause
			var k int
			if _, err := fmt.Sscanf(strings.TrimSpace(rc.text), "returns %d", &k); err != nil {
				p.bindIssues = append(p.bindIssues, bindIssue{fc.key, "dead clause: want `dead returns <n>`, got " + rc.text})
				continue
			}
			fc.deadCount = k
		case "requires", "ensures", "assume":
			pos := body.Rbrace
			cl, err := p.checkClause(fc, rc, rc.where, pos)
			if err != nil {
				p.bindIssues = append(p.bindIssues, bindIssue{fc.key, err.Error()})
				continue
			}
			if rc.kind == "requires" {
				fc.requires = append(fc.requires, cl)
			} else {
				fc.ensures = append(fc.ensures, cl)
			}
		case "callback":
			// callback <param> preserves <expr>: calls through the function-valued parameter leave <expr> unchanged
			f := strings.Fields(rc.text)
			if len(f) == 3 && f[1] == "observes" {
				// callback <param> observes <name>: calls through the parameter have no side effects and their first
				// result is the ghost observer <name> of the arguments (byte slices by content); assumed of the
				// function values callers pass
				if fc.cbObserves == nil {
					fc.cbObserves = map[string]string{}
				}
				fc.cbObserves[f[0]] = f[2]
				continue
			}
			if len(f) < 3 || f[1] != "preserves" {
				return fmt.Errorf("%s: want `callback <param> preserves <expr>` or `callback <param> observes <name>`", rc.where)
			}
			sub := &rawClause{kind: "callback", text: strings.TrimSpace(strings.SplitN(rc.text, "preserves", 2)[1])}
			cl, err := p.checkClauseAny(fc, sub, rc.where, body.Rbrace)
			if err != nil {
				p.bindIssues = append(p.bindIssues, bindIssue{fc.key, err.Error()})
				continue
			}
			cl.label = f[0]
			fc.callbacks = append(fc.callbacks, cl)
		case "modifies":
			if strings.TrimSpace(rc.text) == "*" {
				fc.modAll = true
				continue
			}
			if strings.TrimSpace(rc.text) == "nothing" {
				continue
			}
			for _, part := range splitTopLevel(rc.text, ',') {
				sub := &rawClause{kind: "modifies", text: strings.TrimSpace(part)}
				cl, err := p.checkClauseAny(fc, sub, rc.where, body.Rbrace)
				if err != nil {
					p.bindIssues = append(p.bindIssues, bindIssue{fc.key, err.Error()})
					continue
				}
				fc.modifies = append(fc.modifies, cl)
			}
		default:
			return fmt.Errorf("%s: clause kind %q not allowed here", rc.where, rc.kind)
		}
	}
	for ord, lc := range fc.loops {
		if !lc.skip {
			continue
		}
		nEns := 0
		for _, c := range fc.ensures {
			if !c.assume {
				nEns++
			}
		}
		if fc.nopanic || (lc.skipHasReturn && nEns > 0) {
			p.bindIssues = append(p.bindIssues, bindIssue{fc.key, fmt.Sprintf("%s: loop#%d skip needs `nopanic off` and, when the loop body returns, a contract without postconditions", fc.where, ord)})
		}
	}
	for ord, cls := range closureClauses {
		fl := clos[ord-1]
		sub := &FuncContract{key: fmt.Sprintf("%s$closure#%d", fc.key, ord), fn: fc.fn, decl: fc.decl, lit: fl, pkg: pk,
			where: fc.where, loops: map[int]*LoopContract{}, closures: map[int]*FuncContract{}, props: fc.props, nopanic: true}
		if err := p.fillContract(sub, cls, fl.Body, fl.Type, fl); err != nil {
			return err
		}
		fc.closures[ord] = sub
	}
	return nil
}

func (p *Program) checkClause(fc *FuncContract, rc *rawClause, where string, pos token.Pos) (*Clause, error) {
	cl, err := p.checkClauseAny(fc, rc, where, pos)
	if err != nil {
		return nil, err
	}
	if rc.kind != "decreases" {
		tv := cl.info.Types[cl.expr]
		if b, ok := tv.Type.Underlying().(*types.Basic); !ok || b.Info()&types.IsBoolean == 0 {
			return nil, fmt.Errorf("%s: clause of %s is not boolean: %s", where, fc.key, rc.text)
		}
	}
	return cl, nil
}

func (p *Program) checkClauseAny(fc *FuncContract, rc *rawClause, where string, pos token.Pos) (*Clause, error) {
	expanded, err := expandMacros(rc.text)
	if err != nil {
		return nil, fmt.Errorf("%s: %v", where, err)
	}
	goText, err := desugar(expanded)
	if err != nil {
		return nil, fmt.Errorf("%s: %v", where, err)
	}
	expr, err := parser.ParseExprFrom(p.fset, where, goText, 0)
	if err != nil {
		return nil, fmt.Errorf("%s: contract of %s does not parse: %v  [%s]", where, fc.key, err, goText)
	}
	info := &types.Info{
		Types:      map[ast.Expr]types.TypeAndValue{},
		Uses:       map[*ast.Ident]types.Object{},
		Defs:       map[*ast.Ident]types.Object{},
		Selections: map[*ast.SelectorExpr]*types.Selection{},
		Instances:  map[*ast.Ident]types.Instance{},
		Scopes:     map[ast.Node]*types.Scope{},
	}
	if err := types.CheckExpr(p.fset, fc.pkg.Types, pos, expr, info); err != nil {
		return nil, fmt.Errorf("%s: contract of %s does not type-check (contract does not bind): %v  [%s]", where, fc.key, err, goText)
	}
	props := rc.props
	if len(props) == 0 {
		props = fc.props
	}
	return &Clause{kind: rc.kind, props: props, ownProps: rc.props, text: rc.text, expr: expr, info: info, where: where, assume: rc.kind == "assume"}, nil
}


// knownPostFinding: is this postcondition of fn the subject of a listed known finding (/verif/known_findings.txt)?
func (p *Program) knownPostFinding(fnKey, clauseText string) bool {
	if p.knownPosts == nil {
		p.knownPosts = map[string]bool{}
		for k := range loadKnownFindings(filepath.Join(verifRoot(), "known_findings.txt")) {
			// <prop>|<fn>/post:<slug> @ ...
			if i := strings.Index(k, "|"); i >= 0 {
				k = k[i+1:]
			}
			if j := strings.Index(k, "/post:"); j >= 0 {
				slug := k[j+6:]
				if a := strings.Index(slug, " @ "); a >= 0 {
					slug = slug[:a]
				}
				slug = strings.TrimSuffix(strings.TrimSpace(slug), "…")
				p.knownPosts[k[:j]+"|"+slug] = true
			}
		}
	}
	fn := shortFuncName(nil, false, fnKey)
	sl := normalizeSlug(clauseText)
	for k := range p.knownPosts {
		parts := strings.SplitN(k, "|", 2)
		if parts[0] == fn && strings.HasPrefix(sl, strings.TrimSuffix(parts[1], "…")) {
			return true
		}
	}
	return false
}

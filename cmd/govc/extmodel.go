package main

// Built-in models of a few standard-library functions (part of the trusted base; listed in evidence).

import (
	"go/ast"
	"go/types"
	"strings"
)

func (e *Engine) byteFacts(st *State, arr, off T, n int) {
	if e.quant > 0 {
		return
	}
	for i := 0; i < n; i++ {
		c := Sel(arr, Add(off, I(int64(i))))
		e.assume(st, And(Le(I(0), c), Lt(c, I(256))), "typed memory: byte")
	}
}

func (e *Engine) externalModel(st *State, full string, fn *types.Func, args []Value, call *ast.CallExpr, sig *types.Signature) (Value, bool) {
	switch {
	case strings.HasPrefix(full, "(encoding/binary.bigEndian)."), strings.HasPrefix(full, "(encoding/binary.littleEndian)."):
		big := strings.Contains(full, "bigEndian")
		name := fn.Name()
		e.noteAssumption("model of encoding/binary fixed-width codecs (built in)")
		switch name {
		case "Uint16", "Uint32", "Uint64":
			n := map[string]int{"Uint16": 2, "Uint32": 4, "Uint64": 8}[name]
			sv := args[1].(SliceV)
			e.oblige(st, "bounds", e.slug(call), Ge(sv.ln, I(int64(n))), call.Pos(), nil)
			arr := e.nameQ("arr", Sel(st.Mem, sv.blk))
			e.byteFacts(st, arr, sv.off, n)
			return IntV{e.nameQ("u", byteSum(arr, sv.off, n, big))}, true
		case "PutUint16", "PutUint32", "PutUint64":
			n := map[string]int{"PutUint16": 2, "PutUint32": 4, "PutUint64": 8}[name]
			sv := args[1].(SliceV)
			v := e.nameQ("pv", e.asInt(args[2], call))
			e.oblige(st, "bounds", e.slug(call), Ge(sv.ln, I(int64(n))), call.Pos(), nil)
			arr := Sel(st.Mem, sv.blk)
			// the n bytes are introduced as the unique digits of v in base 256 (exists for 0 <= v < 256^n):
			// linear facts instead of div/mod terms
			sum := I(0)
			var facts []T
			for i := 0; i < n; i++ {
				var shift uint
				if big {
					shift = uint(8 * (n - 1 - i))
				} else {
					shift = uint(8 * i)
				}
				var b T
				if cv, ok := constVal(v); ok {
					b = IBig(new(bigInt).Mod(new(bigInt).Rsh(cv, shift), pow2(8)))
				} else {
					// dig(v, k): the k-th base-256 digit of v, a function of v (equal values give equal bytes)
					e.declareUF("dig", "(declare-fun dig (Int Int) Int)")
					b = app(SInt, "dig", v, I(int64(shift/8)))
					facts = append(facts, And(Le(I(0), b), Le(b, I(255))))
				}
				sum = Add(sum, Mul(b, IBig(pow2(shift))))
				arr = Sto(arr, Add(sv.off, I(int64(i))), b)
			}
			if len(facts) > 0 {
				facts = append(facts, Eq(sum, v))
				e.assume(st, And(facts...), "base-256 digits of a fixed-width unsigned value")
			}
			e.memWrite(st, sv.blk, arr, "the destination of "+name)
			return TupleV{}, true
		}
	case full == "fmt.Errorf" || full == "errors.New":
		e.noteAssumption("fmt.Errorf / errors.New return a fresh non-nil error (built in)")
		a := e.allocBlock(st, 1)
		return IfaceV{a, e.typeID(types.Typ[types.Invalid])}, true
	case full == "bytes.Equal":
		e.noteAssumption("model of bytes.Equal (built in)")
		a := args[0].(SliceV)
		b := args[1].(SliceV)
		eq := And(Eq(a.ln, b.ln), e.arrayEq(st, Sel(st.Mem, a.blk), a.off, Sel(st.Mem, b.blk), b.off, a.ln))
		return BoolV{e.nameQ("beq", eq)}, true
	case full == "bytes.HasPrefix":
		e.noteAssumption("model of bytes.HasPrefix (built in)")
		a := args[0].(SliceV)
		b := args[1].(SliceV)
		r := And(Ge(a.ln, b.ln), e.arrayEq(st, Sel(st.Mem, a.blk), a.off, Sel(st.Mem, b.blk), b.off, b.ln))
		return BoolV{e.nameQ("hp", r)}, true
	case full == "bytes.Compare":
		e.noteAssumption("model of bytes.Compare (built in)")
		a := args[0].(SliceV)
		b := args[1].(SliceV)
		x := bytesOp{Sel(st.Mem, a.blk), a.off, a.ln}
		y := bytesOp{Sel(st.Mem, b.blk), b.off, b.ln}
		r := e.fresh("cmp", SInt)
		e.assume(st, And(Or(Eq(r, I(-1)), Eq(r, I(0)), Eq(r, I(1))), Eq(Eq(r, I(-1)), e.lexLess(x, y)), Eq(Eq(r, I(1)), e.lexLess(y, x))), "bytes.Compare")
		return IntV{r}, true
	case strings.HasPrefix(full, "github.com/massnetorg/mass-core/logging."):
		e.noteAssumption("logging calls have no effect on wallet state (arguments still evaluated)")
		return TupleV{}, true
	case full == "(*math/big.Int).SetBytes" || strings.HasPrefix(full, "(*math/big.Int)."):
		return nil, false
	}
	return nil, false
}

package main

import (
	"go/ast"
	"go/printer"
	"go/token"
	"strings"
)

func printNode(b *strings.Builder, fset *token.FileSet, n ast.Node) {
	cfg := printer.Config{Mode: printer.RawFormat}
	_ = cfg.Fprint(b, fset, n)
}

package main

// SMT term construction with light constant folding.  Terms are strings plus a sort; large
// shared sub-terms are named through Engine.name (define-fun), so strings stay small.

import (
	"fmt"
	"math/big"
	"strings"
)

type Sort int

const (
	SInt Sort = iota
	SBool
	SArr  // (Array Int Int)
	SHeap // (Array Int (Array Int Int))
)

func (s Sort) String() string {
	switch s {
	case SInt:
		return "Int"
	case SBool:
		return "Bool"
	case SArr:
		return "(Array Int Int)"
	case SHeap:
		return "(Array Int (Array Int Int))"
	}
	return "?"
}

type T struct {
	s    string
	sort Sort
}

func (t T) String() string { return t.s }

var (
	tTrue  = T{"true", SBool}
	tFalse = T{"false", SBool}
)

func I(n int64) T {
	if n < 0 {
		return T{fmt.Sprintf("(- %d)", -n), SInt}
	}
	return T{fmt.Sprintf("%d", n), SInt}
}

func IBig(n *big.Int) T {
	if n.Sign() < 0 {
		return T{"(- " + new(big.Int).Neg(n).String() + ")", SInt}
	}
	return T{n.String(), SInt}
}

func pow2(n uint) *big.Int { return new(big.Int).Lsh(big.NewInt(1), n) }

// constVal returns the integer value of a literal term.
func constVal(t T) (*big.Int, bool) {
	if t.sort != SInt {
		return nil, false
	}
	s := t.s
	neg := false
	if strings.HasPrefix(s, "(- ") && strings.HasSuffix(s, ")") {
		s = s[3 : len(s)-1]
		neg = true
	}
	if s == "" {
		return nil, false
	}
	for _, c := range s {
		if c < '0' || c > '9' {
			return nil, false
		}
	}
	v, ok := new(big.Int).SetString(s, 10)
	if !ok {
		return nil, false
	}
	if neg {
		v.Neg(v)
	}
	return v, true
}

func constInt(t T) (int64, bool) {
	v, ok := constVal(t)
	if !ok || !v.IsInt64() {
		return 0, false
	}
	return v.Int64(), true
}

func app(sort Sort, op string, args ...T) T {
	var b strings.Builder
	b.WriteByte('(')
	b.WriteString(op)
	for _, a := range args {
		b.WriteByte(' ')
		b.WriteString(a.s)
	}
	b.WriteByte(')')
	return T{b.String(), sort}
}

func Add(a, b T) T {
	av, aok := constVal(a)
	bv, bok := constVal(b)
	if aok && bok {
		return IBig(new(big.Int).Add(av, bv))
	}
	if aok && av.Sign() == 0 {
		return b
	}
	if bok && bv.Sign() == 0 {
		return a
	}
	return app(SInt, "+", a, b)
}

func Sub(a, b T) T {
	av, aok := constVal(a)
	bv, bok := constVal(b)
	if aok && bok {
		return IBig(new(big.Int).Sub(av, bv))
	}
	if bok && bv.Sign() == 0 {
		return a
	}
	if a.s == b.s {
		return I(0)
	}
	return app(SInt, "-", a, b)
}

func Neg(a T) T {
	if av, ok := constVal(a); ok {
		return IBig(new(big.Int).Neg(av))
	}
	return app(SInt, "-", a)
}

func Mul(a, b T) T {
	av, aok := constVal(a)
	bv, bok := constVal(b)
	if aok && bok {
		return IBig(new(big.Int).Mul(av, bv))
	}
	if aok && av.Cmp(big.NewInt(1)) == 0 {
		return b
	}
	if bok && bv.Cmp(big.NewInt(1)) == 0 {
		return a
	}
	if (aok && av.Sign() == 0) || (bok && bv.Sign() == 0) {
		return I(0)
	}
	return app(SInt, "*", a, b)
}

// Div and Mod are SMT-LIB integer division (floor for positive divisors).
func Div(a, b T) T {
	av, aok := constVal(a)
	bv, bok := constVal(b)
	if aok && bok && bv.Sign() > 0 {
		q := new(big.Int)
		m := new(big.Int)
		q.DivMod(av, bv, m) // Euclidean: same as SMT for positive divisor
		return IBig(q)
	}
	if bok && bv.Cmp(big.NewInt(1)) == 0 {
		return a
	}
	return app(SInt, "div", a, b)
}

func Mod(a, b T) T {
	av, aok := constVal(a)
	bv, bok := constVal(b)
	if aok && bok && bv.Sign() > 0 {
		q := new(big.Int)
		m := new(big.Int)
		q.DivMod(av, bv, m)
		return IBig(m)
	}
	if bok && bv.Cmp(big.NewInt(1)) == 0 {
		return I(0)
	}
	return app(SInt, "mod", a, b)
}

func cmpFold(op string, a, b T) (T, bool) {
	av, aok := constVal(a)
	bv, bok := constVal(b)
	if !(aok && bok) {
		return T{}, false
	}
	c := av.Cmp(bv)
	var r bool
	switch op {
	case "<":
		r = c < 0
	case "<=":
		r = c <= 0
	case ">":
		r = c > 0
	case ">=":
		r = c >= 0
	case "=":
		r = c == 0
	}
	if r {
		return tTrue, true
	}
	return tFalse, true
}

func Lt(a, b T) T {
	if r, ok := cmpFold("<", a, b); ok {
		return r
	}
	return app(SBool, "<", a, b)
}
func Le(a, b T) T {
	if r, ok := cmpFold("<=", a, b); ok {
		return r
	}
	if a.s == b.s {
		return tTrue
	}
	return app(SBool, "<=", a, b)
}
func Gt(a, b T) T { return Lt(b, a) }
func Ge(a, b T) T { return Le(b, a) }

func Eq(a, b T) T {
	if a.s == b.s {
		return tTrue
	}
	if a.sort == SInt {
		if r, ok := cmpFold("=", a, b); ok {
			return r
		}
	}
	if a.sort == SBool {
		if b.s == "true" {
			return a
		}
		if a.s == "true" {
			return b
		}
		if b.s == "false" {
			return Not(a)
		}
		if a.s == "false" {
			return Not(b)
		}
	}
	return app(SBool, "=", a, b)
}

func Ne(a, b T) T { return Not(Eq(a, b)) }

func Not(a T) T {
	switch a.s {
	case "true":
		return tFalse
	case "false":
		return tTrue
	}
	if strings.HasPrefix(a.s, "(not ") {
		return T{a.s[5 : len(a.s)-1], SBool}
	}
	return app(SBool, "not", a)
}

func And(xs ...T) T {
	var keep []T
	for _, x := range xs {
		if x.s == "false" {
			return tFalse
		}
		if x.s == "true" {
			continue
		}
		keep = append(keep, x)
	}
	switch len(keep) {
	case 0:
		return tTrue
	case 1:
		return keep[0]
	}
	return app(SBool, "and", keep...)
}

func Or(xs ...T) T {
	var keep []T
	for _, x := range xs {
		if x.s == "true" {
			return tTrue
		}
		if x.s == "false" {
			continue
		}
		keep = append(keep, x)
	}
	switch len(keep) {
	case 0:
		return tFalse
	case 1:
		return keep[0]
	}
	return app(SBool, "or", keep...)
}

func Implies(a, b T) T {
	if a.s == "true" {
		return b
	}
	if a.s == "false" || b.s == "true" {
		return tTrue
	}
	if b.s == "false" {
		return Not(a)
	}
	return app(SBool, "=>", a, b)
}

func Ite(c, a, b T) T {
	if c.s == "true" {
		return a
	}
	if c.s == "false" {
		return b
	}
	if a.s == b.s {
		return a
	}
	if a.sort == SBool {
		if a.s == "true" && b.s == "false" {
			return c
		}
		if a.s == "false" && b.s == "true" {
			return Not(c)
		}
	}
	return app(a.sort, "ite", c, a, b)
}

func Sel(arr, idx T) T {
	s := SInt
	if arr.sort == SHeap {
		s = SArr
	}
	return app(s, "select", arr, idx)
}

func Sto(arr, idx, v T) T { return app(arr.sort, "store", arr, idx, v) }

func B2I(b T) T { return Ite(b, I(1), I(0)) }
func I2B(i T) T {
	if v, ok := constInt(i); ok {
		if v != 0 {
			return tTrue
		}
		return tFalse
	}
	// (ite c 1 0) pattern
	if strings.HasPrefix(i.s, "(ite ") && strings.HasSuffix(i.s, " 1 0)") {
		return T{i.s[5 : len(i.s)-5], SBool}
	}
	return Not(Eq(i, I(0)))
}

func Forall(vars []string, body T) T {
	if len(vars) == 0 || body.s == "true" {
		return body
	}
	var b strings.Builder
	b.WriteString("(forall (")
	for _, v := range vars {
		fmt.Fprintf(&b, "(%s Int)", v)
	}
	b.WriteString(") ")
	b.WriteString(body.s)
	b.WriteString(")")
	return T{b.String(), SBool}
}

func Exists(vars []string, body T) T {
	if len(vars) == 0 {
		return body
	}
	var b strings.Builder
	b.WriteString("(exists (")
	for _, v := range vars {
		fmt.Fprintf(&b, "(%s Int)", v)
	}
	b.WriteString(") ")
	b.WriteString(body.s)
	b.WriteString(")")
	return T{b.String(), SBool}
}

// symbolsOf returns the identifiers (non-numeric, non-keyword atoms) in an SMT string.
func symbolsOf(s string, into map[string]bool) {
	i := 0
	n := len(s)
	for i < n {
		c := s[i]
		if c == '(' || c == ')' || c == ' ' || c == '\n' || c == '\t' {
			i++
			continue
		}
		j := i
		if c == '|' {
			j++
			for j < n && s[j] != '|' {
				j++
			}
			j++
		} else {
			for j < n && s[j] != '(' && s[j] != ')' && s[j] != ' ' && s[j] != '\n' && s[j] != '\t' {
				j++
			}
		}
		tok := s[i:j]
		if !(tok[0] >= '0' && tok[0] <= '9') {
			into[tok] = true
		}
		i = j
	}
}

type bigInt = big.Int

var bigOne = big.NewInt(1)

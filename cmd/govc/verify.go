package main

// Per-function verification driver.

import (
	"crypto/sha256"
	"fmt"
	"go/ast"
	"go/token"
	"go/types"
	"os"
	"strings"
)

type FuncResult struct {
	key        string
	name       string
	props      []string
	obligs     []*Oblig
	outside    string // non-empty: function left the subset (reason)
	abstracted map[string]int
	assumptions []string
	srcHash    string
	eng        *Engine
	trusted    bool
	deadClauses []string
	deadWant    int // declared number of unreachable returns (`dead returns n`)
	fc *FuncContract
	entry map[types.Object]Value
	entryState *State
	usedContracts []string
}

func shortFuncName(fn *types.Func, lit bool, key string) string {
	full := key
	full = strings.ReplaceAll(full, repoModule+"/", "")
	// strip directory prefixes of package paths: keep last element
	var b strings.Builder
	i := 0
	for i < len(full) {
		j := i
		for j < len(full) && (isIdentByte(full[j]) || full[j] == '/' || full[j] == '-') {
			j++
		}
		tok := full[i:j]
		if k := strings.LastIndex(tok, "/"); k >= 0 {
			tok = tok[k+1:]
		}
		b.WriteString(tok)
		if j < len(full) {
			b.WriteByte(full[j])
		}
		i = j + 1
	}
	return b.String()
}

func isIdentByte(c byte) bool {
	return c == '_' || c == '.' && false || (c >= 'a' && c <= 'z') || (c >= 'A' && c <= 'Z') || (c >= '0' && c <= '9')
}

// computeEscaping marks variables whose address is taken or that closures mutate.
func (e *Engine) computeEscaping(body ast.Node) {
	if e.escaping == nil {
		e.escaping = map[*types.Var]bool{}
	}
	rootIdent := func(x ast.Expr) *ast.Ident {
		for {
			switch t := x.(type) {
			case *ast.ParenExpr:
				x = t.X
			case *ast.SelectorExpr:
				if sel := e.pkg.info.Selections[t]; sel != nil && sel.Kind() == types.FieldVal {
					// stop at implicit pointer dereference
					if _, isPtr := under(e.pkg.info.TypeOf(t.X)).(*types.Pointer); isPtr {
						return nil
					}
					x = t.X
					continue
				}
				return nil
			case *ast.IndexExpr:
				if _, isArr := under(e.pkg.info.TypeOf(t.X)).(*types.Array); isArr {
					x = t.X
					continue
				}
				return nil
			case *ast.Ident:
				return t
			default:
				return nil
			}
		}
	}
	markRoot := func(x ast.Expr) {
		if id := rootIdent(x); id != nil {
			if o, ok := e.pkg.info.Uses[id].(*types.Var); ok && !o.IsField() {
				if _, isArr := under(o.Type()).(*types.Array); isArr {
					return // arrays already live in blocks
				}
				e.escaping[o] = true
			}
		}
	}
	var inLit int
	var declaredInLit []map[types.Object]bool
	ast.Inspect(body, func(n ast.Node) bool {
		switch s := n.(type) {
		case *ast.UnaryExpr:
			if s.Op == token.AND {
				if _, isLit := s.X.(*ast.CompositeLit); !isLit {
					markRoot(s.X)
				}
			}
		case *ast.CallExpr:
			if sel, ok := s.Fun.(*ast.SelectorExpr); ok {
				if selection := e.pkg.info.Selections[sel]; selection != nil && selection.Kind() == types.MethodVal {
					fn := selection.Obj().(*types.Func)
					sig := fn.Type().(*types.Signature)
					if sig.Recv() != nil {
						if _, wantPtr := under(sig.Recv().Type()).(*types.Pointer); wantPtr {
							if _, havePtr := under(e.pkg.info.TypeOf(sel.X)).(*types.Pointer); !havePtr {
								markRoot(sel.X)
							}
						}
					}
				}
			}
		case *ast.SliceExpr:
			// slicing a struct's array field of a local struct value
			if _, isArr := under(e.pkg.info.TypeOf(s.X)).(*types.Array); isArr {
				if _, isId := s.X.(*ast.Ident); !isId {
					markRoot(s.X)
				}
			}
		case *ast.FuncLit:
			_ = inLit
			_ = declaredInLit
			// variables assigned inside a closure but declared outside escape
			declared := map[types.Object]bool{}
			ast.Inspect(s, func(m ast.Node) bool {
				if id, ok := m.(*ast.Ident); ok {
					if o := e.pkg.info.Defs[id]; o != nil {
						declared[o] = true
					}
				}
				return true
			})
			ast.Inspect(s.Body, func(m ast.Node) bool {
				mark := func(x ast.Expr) {
					if id := rootIdent(x); id != nil {
						if o, ok := e.pkg.info.Uses[id].(*types.Var); ok && !declared[o] && !o.IsField() && o.Parent() != o.Pkg().Scope() {
							e.escaping[o] = true
						}
					}
				}
				switch a := m.(type) {
				case *ast.AssignStmt:
					for _, l := range a.Lhs {
						mark(l)
					}
				case *ast.IncDecStmt:
					mark(a.X)
				}
				return true
			})
		}
		return true
	})
}

func (e *Engine) verifyFunc(fc *FuncContract) (res *FuncResult) {
	res = &FuncResult{key: fc.key, props: fc.props, eng: e, fc: fc}
	e.fc = fc
	e.fnName = shortFuncName(fc.fn, fc.lit != nil, fc.key)
	res.name = e.fnName
	e.curProps = fc.props
	e.pkg = &pkgCtx{info: fc.pkg.TypesInfo, pkg: fc.pkg.Types}
	e.slugCount = map[string]int{}
	e.funcsUsed = map[string]bool{}
	var body *ast.BlockStmt
	var sig *types.Signature
	if fc.lit != nil {
		body = fc.lit.Body
		sig = fc.pkg.TypesInfo.TypeOf(fc.lit).(*types.Signature)
	} else {
		body = fc.decl.Body
		sig = fc.fn.Type().(*types.Signature)
	}
	// source hash of the verified text
	{
		start := e.prog.fset.Position(body.Pos())
		end := e.prog.fset.Position(body.End())
		if src, err := readFileCached(start.Filename); err == nil && end.Offset <= len(src) {
			res.srcHash = fmt.Sprintf("%x", sha256.Sum256(src[start.Offset:end.Offset]))[:16]
		}
	}
	defer func() {
		if r := recover(); r != nil {
			if u, ok := r.(unsupported); ok {
				res.outside = u.msg
				res.obligs = e.obligs
				return
			}
			panic(r)
		}
	}()
	st := &State{vars: map[types.Object]Value{}, ghost: map[string]T{}, pc: tTrue, H: map[string]T{}}
	e.ensureMapHeaps(st)
	st.Mem = e.fresh("Mem0", SHeap)
	st.alloc = e.fresh("alloc0", SInt)
	e.alloc0 = st.alloc
	e.mapV0 = st.ghost["MapV"]
	e.assumeGlobal(Ge(st.alloc, I(1)), "allocation pointer starts above nil")
	e.computeEscaping(body)
	for _, th := range fc.theories {
		if th == "numerals" {
			e.numeralInit()
		}
		if th == "strlen" {
			e.strLenQ = true
		}
	}
	params := e.paramObjects(fc)
	entry := map[types.Object]Value{}
	for _, p := range params {
		entry[p] = e.symbolic(st, "p_"+p.Name(), p.Type())
	}
	// parameters whose address is taken live in cells of their own, allocated by the function itself: they are fresh
	// memory for the frame (a write to a by-value parameter is no effect on the caller)
	paramBound, paramSeq := st.alloc, e.allocSeq
	for _, p := range params {
		e.declare(st, p, entry[p])
	}
	if fc.lit != nil {
		// captured variables of a closure verified on its own: arbitrary well-typed values
		for _, o := range freeVars(fc.pkg.TypesInfo, fc.lit) {
			if _, ok := st.vars[o]; !ok {
				v := e.symbolic(st, "cap_"+o.Name(), o.Type())
				entry[o] = v
				e.declare(st, o, v)
			}
		}
	}
	for _, req := range fc.requires {
		g := e.evalClause(st, req, nil)
		req.fired++
		e.assume(st, g, "requires")
		st.pc = e.name("pc", And(st.pc, g))
	}
	// vacuity: the precondition (with type invariants) must be satisfiable
	e.obligs = append(e.obligs, &Oblig{name: e.fnName + "/cover:requires", kind: "cover", fn: e.fnName, props: fc.props,
		goal: Implies(st.pc, tFalse), ndefs: len(e.defs), nfacts: len(e.facts), pos: fc.where})
	res.deadWant = fc.deadCount
	if fc.trusted {
		res.trusted = true
		res.obligs = e.obligs
		return res
	}
	e.oldState = st.clone()
	entryState := e.oldState
	e.entryState = entryState
	res.entry = entry
	res.entryState = entryState
	// the frame: fresh memory plus the modifies targets
	{
		f := &frame{entry: entryState, bound: paramBound, startSeq: paramSeq, all: fc.modAll || fc.assumeFrame}
		for _, m := range fc.modifies {
			e.addFrameTarget(f, e.evalModTarget(st, m), m)
		}
		e.frame = f
		if fc.assumeFrame {
			e.noteAssumption("assumed frame (assumeframe): call sites use the declared modifies clause of " + shortName(fc.key) + ", its body is not checked against it")
		}
	}
	var results []*types.Var
	for k := 0; k < sig.Results().Len(); k++ {
		r := sig.Results().At(k)
		results = append(results, r)
		if r.Name() != "" && r.Name() != "_" {
			e.declare(st, r, e.zero(st, r.Type()))
		}
	}
	cx := &Ctx{results: results, fnContract: fc, loopOrd: map[ast.Stmt]int{}, closureOrd: map[*ast.FuncLit]int{}}
	for i, l := range loopsOf(body) {
		cx.loopOrd[l] = i + 1
	}
	cx.ifOrd = map[*ast.IfStmt]int{}
	for i, s := range ifsOf(body) {
		cx.ifOrd[s] = i + 1
	}
	if !fc.nopanic {
		// panic-freedom not claimed for this function: obligations of safety kinds are dropped afterwards
	}
	out := e.execBlock(st, body.List, cx)
	if out != nil {
		var vals []Value
		for _, r := range results {
			v, _ := e.lookupVar(out, r)
			vals = append(vals, e.deLoc(out, v, r.Type()))
		}
		cx.returns = append(cx.returns, &retState{st: out, vals: vals, pos: body.Rbrace, nd: len(cx.defers)})
	}
	for ri, r := range cx.returns {
		nd := len(cx.defers)
		if r.nd >= 0 && r.nd < nd {
			nd = r.nd // only the defer statements reached before this return run
		}
		for i := nd - 1; i >= 0; i-- {
			if r.st != nil {
				r.st = e.execStmt(r.st, cx.defers[i], &Ctx{results: results})
			}
		}
		if r.st == nil || r.st.pc.s == "false" {
			continue
		}
		env := map[types.Object]Value{}
		for k, v := range entry {
			env[k] = v
		}
		bindResults(fc, env, r.vals)
		e.oldState = entryState
		e.obligs = append(e.obligs, &Oblig{name: fmt.Sprintf("%s/cover:return#%d", e.fnName, ri+1), kind: "cover", fn: e.fnName, props: fc.props,
			goal: Implies(r.st.pc, tFalse), ndefs: len(e.defs), nfacts: len(e.facts), pos: fc.where})
		for _, ens := range fc.ensures {
			if ens.assume {
				e.noteAssumption("assume clause (a postcondition used at call sites but NOT proved in the callee's body): " + shortName(fc.key) + ": " + normalizeSlug(ens.text))
				continue
			}
			m := e.beginScope()
			rs := r.st.clone()
			// positive universal variables of a postcondition are proved for fresh constants
			e.skolemGoal, e.pol, e.skolemOf = true, 1, map[*ast.FuncLit][]T{}
			g := e.evalClause(rs, ens, env)
			e.skolemGoal, e.pol, e.skolemOf = false, 0, nil
			e.retTag = r.tag
			if e.retTag == "" {
				e.retTag = "end of body"
			}
			e.oblige(rs, "post", ens.text, g, r.pos, ens)
			e.retTag = ""
			e.endScope(m)
		}
	}
	if !fc.nopanic {
		var keep []*Oblig
		for _, o := range e.obligs {
			switch o.kind {
			case "bounds", "nil", "slice", "div", "make", "typeassert", "panic", "nilmap":
				continue
			}
			keep = append(keep, o)
		}
		e.obligs = keep
	}
	if fc.safetyOnly {
		var keep []*Oblig
		for _, o := range e.obligs {
			switch o.kind {
			case "bounds", "nil", "slice", "div", "make", "typeassert", "panic", "nilmap":
				keep = append(keep, o)
			case "cover":
				// the reachability probes of individual returns are not used for thin contracts (a defensive return made
				// unreachable by a callee contract is no vacuity here); the precondition probe stays
				if strings.HasSuffix(o.name, "/cover:requires") {
					keep = append(keep, o)
				}
			}
		}
		e.obligs = keep
		e.noteAssumption("thin safety-only contract: callee preconditions and frames are not checked for " + e.fnName)
	}
	res.obligs = e.obligs
	res.abstracted = e.abstracted
	for a := range e.assumptions {
		res.assumptions = append(res.assumptions, a)
	}
	for k := range e.funcsUsed {
		res.usedContracts = append(res.usedContracts, k)
	}
	// clauses that produced nothing
	check := func(cl *Clause) {
		if cl.fired == 0 {
			res.deadClauses = append(res.deadClauses, fmt.Sprintf("%s: %s %s", cl.where, cl.kind, cl.text))
		}
	}
	for _, c := range fc.ensures {
		if !c.assume {
			check(c)
		}
	}
	for _, gs := range fc.guards {
		for _, g := range gs {
			check(g.spec)
		}
	}
	for _, as := range fc.asserts {
		for _, a := range as {
			check(a)
		}
	}
	for ord, lc := range fc.loops {
		for _, c := range lc.invariants {
			check(c)
		}
		for _, c := range lc.steps {
			check(c)
		}
		if lc.decreases != nil {
			check(lc.decreases)
		}
		if !lc.used {
			res.deadClauses = append(res.deadClauses, fmt.Sprintf("%s: loop#%d contract never reached", fc.where, ord))
		}
	}
	return res
}

var fileCache = map[string][]byte{}

func readFileCached(name string) ([]byte, error) {
	if b, ok := fileCache[name]; ok {
		return b, nil
	}
	b, err := os.ReadFile(name)
	if err != nil {
		return nil, err
	}
	fileCache[name] = b
	return b, nil
}

// freeVars lists variables used in a function literal but declared outside it.
func freeVars(info *types.Info, lit *ast.FuncLit) []*types.Var {
	declared := map[types.Object]bool{}
	ast.Inspect(lit, func(n ast.Node) bool {
		if id, ok := n.(*ast.Ident); ok {
			if o := info.Defs[id]; o != nil {
				declared[o] = true
			}
		}
		return true
	})
	seen := map[*types.Var]bool{}
	var out []*types.Var
	ast.Inspect(lit.Body, func(n ast.Node) bool {
		if id, ok := n.(*ast.Ident); ok {
			if o, ok := info.Uses[id].(*types.Var); ok && !declared[o] && !o.IsField() && o.Pkg() != nil && o.Parent() != o.Pkg().Scope() && !seen[o] {
				seen[o] = true
				out = append(out, o)
			}
		}
		return true
	})
	sortVars(out)
	return out
}

func (e *Engine) frameArrayBlocks(f *frame, base T, t types.Type) {
	switch u := under(t).(type) {
	case *types.Array:
		f.blocks = append(f.blocks, base)
	case *types.Struct:
		off := 0
		for i := 0; i < u.NumFields(); i++ {
			ft := u.Field(i).Type()
			e.frameArrayBlocks(f, Add(base, I(int64(off))), ft)
			off += e.cells(ft)
		}
	}
}

func (e *Engine) addFrameTarget(f *frame, mt modTarget, m *Clause) {
	if mt.place != nil {
		if _, isArr := under(mt.place.typ).(*types.Array); isArr {
			f.blocks = append(f.blocks, mt.place.addr)
		} else {
			cr := cellRange{lo: mt.place.addr, hi: Add(mt.place.addr, I(int64(e.cells(mt.place.typ))))}
			switch under(mt.place.typ).(type) {
			case *types.Basic, *types.Pointer, *types.Map, *types.Chan, *types.Signature, *types.Slice, *types.Interface:
				cr.key = mt.place.key
			}
			f.cells = append(f.cells, cr)
			e.frameArrayBlocks(f, mt.place.addr, mt.place.typ)
		}
		return
	}
	t := m.info.TypeOf(m.expr)
	switch x := mt.val.(type) {
	case RefV:
		if pt, ok := under(t).(*types.Pointer); ok {
			if _, isArr := under(pt.Elem()).(*types.Array); isArr {
				f.blocks = append(f.blocks, x.t)
			} else {
				f.cells = append(f.cells, cellRange{lo: x.t, hi: Add(x.t, I(int64(e.cells(pt.Elem()))))})
				e.frameArrayBlocks(f, x.t, pt.Elem())
			}
		} else {
			f.maps = append(f.maps, x.t)
		}
	case SliceV:
		f.blocks = append(f.blocks, x.blk)
	default:
		e.fail(m.expr, "unsupported modifies target %T", mt.val)
	}
}

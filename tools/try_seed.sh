#!/bin/bash
# usage: try_seed.sh <patch.diff> <property>...   applies the patch to /repo, runs the quick checks, reverts.
# Refuses to run when /repo has uncommitted changes (the revert would destroy them).
patch=$1; shift
if [ -n "$(git -C /repo status --porcelain)" ]; then echo "REFUSING: /repo has uncommitted changes; commit them first"; exit 3; fi
git -C /repo apply "$patch" || { echo "patch does not apply"; exit 3; }
for p in "$@"; do
  /verif/bin/govc check -property $p -no-evidence 2>&1 | grep -v "^note" | grep -E "VIOLATION|failed obligation|cannot decide|^property" | cut -c1-260
done
git -C /repo checkout -- .

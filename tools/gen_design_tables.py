#!/usr/bin/env python3
"""Regenerates the two generated tables of DESIGN.md section 10 (claims: from evidence/*.json and tools/claims.json;
seeds: from seeded/*/meta.json) between their <!-- ...-BEGIN/END --> markers.  docs/as_built.md gets a copy of section 10."""
import json,glob,os,re
ROOT=os.path.dirname(os.path.dirname(os.path.abspath(__file__)))
def between(s,a,b,new):
    i=s.index(a)+len(a); j=s.index(b)
    return s[:i]+"\n"+new+"\n"+s[j:]
SHORT={
 "C01":"key/value codecs of the ledger buckets incl. the block-record family; bucket helpers against the abstract bucket map; `ScriptAddressBalance`: a coin enters a spendable/withdrawable column exactly under the consensus maturity rule, for its class, when no pool transaction spends it; lemmas in `filterTx`, `filterBlock`, `Rollback`",
 "C02":"conservation lemma of one settled pass of `autoConstructTxInAndChangeTxOut`; <= 1 added output, requested outputs untouched; fee >= user fee / relay minimum; explicit-input ownership; eligibility filter of automatic selection; sender/change pass-through of estimators and `Create*`",
 "C03":"frame of `signWitnessTx`: only the witness of an input is ever assigned (inputs, outpoints, sequences, outputs, lock time, version, payload kept on success and on every error path)",
 "C08":"erase-by-prefix complete and framed (`deleteByPrefix`, `Remove*ByWalletId`); `removableTxForRemoveWallet`; removal-step and passphrase/readiness lemmas",
 "C09":"pending-transaction buckets: key schema, value format typestate, insert/delete/lookup helpers, `insertUnminedInputs`, `removeConflict`, `ExistsUtxo`, settle ordering in `insertMinedTx`, `Rollback` re-insert format and marker key",
 "C10":"history key codecs; sequence lemma for `constructTxIn`/`addTxIn`; withdraw/unwithdraw flips; deposit classes in the balance guards; `Rollback` flip guard",
 "C11":"`BytesPrefix`, ldb inner keys, batch overlay Get/Put/Delete/GetNetPutsByPrefix, bucket Get/Put/Delete, Commit/Rollback, `Update`/`View`, prefix read-your-writes, `Clear` prefix, empty shared batch at begin",
 "C12":"gap rule on issue (`nextAddresses`), scan rule of a restore (`createManagerKeyScope`), first-use rule (`AddCredits`), address-record key codec and form",
 "C13":"lemma level: `padByteSlice`, checksum over full-length entropy, word membership, `compareByteSlices`",
 "C14":"BIP-32 child derivation bookkeeping and error cases, serialisation lengths, `paddedAppend`, `Neuter`, `String`, `NewKeyFromString`, `SetNet`",
 "C15":"`StringToAmount`: acceptance set, exact value, completeness; `AmountToString` (both copies): range, shortest decimal shape, exact value",
 "C16":"`ParsePkScript` against the library's template observers; builders read back; `extractAddressInfos`, `checkWitnessAddress`",
 "C17":"stale-height robustness of `ScriptAddressBalance` (three step obligations fail: listed); one snapshot per coin query (height = sync height of the same read transaction)",
 "C18":"a storage error is never swallowed on the write helpers; `Update` commit/rollback; a failed import step never reports completion; empty shared batch at begin",
 "C19":"no panic site reachable in any function under contract (index, slice, nil, nil-map write, division, make, type assertion), incl. `filterTx`, `ParsePkScript`, `constructTxIn`, `addTxIn`, `signWitnessTx`, `estimateSignedSize`, `autoConstructTxInAndChangeTxOut`, amount conversions",
}
rows=["| id  | functions under contract | obligations | what is decided (short) |","|-----|--------------------------|-------------|--------------------------|"]
claims=json.load(open(ROOT+'/tools/claims.json'))
for pid in sorted(claims):
    f=ROOT+'/evidence/%s.json'%pid
    if not os.path.exists(f): continue
    c=json.load(open(f))['coverage']
    n=len(c['functions_under_contract']); ob=c['obligations_including_known_findings']; kf=len(c.get('known_findings',[]))
    obs=str(ob)+(" (%d known finding%s)"%(kf,'s' if kf>1 else '') if kf else "")
    rows.append("| %s | %d | %s | %s |"%(pid,n,obs,SHORT.get(pid,'')))
claims_tbl="\n".join(rows)
rows=["| seed | file changed | result of the property's quick check | first failed obligation |","|------|--------------|--------------------------------------|-------------------------|"]
tot=caught=0
for d in sorted(glob.glob(ROOT+'/seeded/*/'),key=lambda x:(x.split('/')[-2].split('-')[0],int(x.split('/')[-2].split('-')[1]))):
    m=json.load(open(d+'meta.json')); det=m.get('detected_by',{})
    st=det.get('status','not run'); tot+=1
    res={'VIOLATION':'**caught** (VIOLATION)','missed':'missed','cannot-decide':'cannot decide (exit 2)'}.get(st,st)
    if st=='VIOLATION': caught+=1
    fo=(det.get('failed_obligations') or [''])[0].replace('|','\\|')
    if len(fo)>150: fo=fo[:150]+'…'
    rows.append("| %s | %s | %s | %s |"%(m['seed'],", ".join(m['files_changed']),res,('`'+fo+'`') if fo else ''))
seed_tbl="\n".join(rows)+"\n\n%d of the %d stored changes are reported as violations of their property by its quick check."%(caught,tot)
p=ROOT+'/DESIGN.md'; s=open(p).read()
s=between(s,'<!-- CLAIMS-TABLE-BEGIN -->','<!-- CLAIMS-TABLE-END -->',claims_tbl)
s=between(s,'<!-- SEED-TABLE-BEGIN -->','<!-- SEED-TABLE-END -->',seed_tbl)
open(p,'w').write(s)
a=s.index('## 10. As built'); b=s.index('## Appendix A')
open(ROOT+'/docs/as_built.md','w').write(s[a:b])
print("claims rows:",len(claims),"seeds:",tot,"caught:",caught)

#!/bin/bash
# Re-runs every claimed quick check on /repo (rewrites evidence), validates manifest + evidence against the schemas.
cd /verif
export GOFLAGS=-mod=mod GOPROXY=off GOSUMDB=off GOTOOLCHAIN=local
go build -o bin/govc ./cmd/govc || exit 1
./bin/govc lock >/dev/null || exit 1   # refresh contracts/ordinals.lock (headers of the statements ordinal-anchored clauses were written for)
python3 tools/gen_manifest.py >/dev/null
rc=0
# postconditions that call sites assume but no claimed check proves (see `govc list -claimed`)
claimed=$(python3 -c "import json;print(','.join(c['property_id'] for c in json.load(open('MANIFEST.json'))['checks']))")
./bin/govc list -claimed $claimed | grep UNSERVED && { echo "  !! unserved postconditions"; rc=1; }
for p in $(python3 -c "import json;print(' '.join(c['property_id'] for c in json.load(open('MANIFEST.json'))['checks']))"); do
  out=$(./bin/govc check -property $p -tier quick 2>&1); e=$?
  echo "$out" | grep "^property" | cut -c1-170
  if [ $e -ne 0 ]; then echo "  !! $p exit $e"; echo "$out" | grep "VIOLATION\|cannot decide" | head -5 | cut -c1-200; rc=1; fi
done
python3-vt - <<'PY' || rc=1
import json,jsonschema,glob,sys
jsonschema.validate(json.load(open('/verif/MANIFEST.json')),json.load(open('/root/.vp/MANIFEST.schema.json')))
sch=json.load(open('/root/.vp/EVIDENCE.schema.json'))
ok=True
for c in json.load(open('/verif/MANIFEST.json'))['checks']:
    f=c['evidence_file']; d=json.load(open(f)); jsonschema.validate(d,sch)
    cov=d['coverage']
    if cov['obligations']!=cov['discharged']: print('  !! evidence', f, 'discharged != obligations'); ok=False
print('schemas ok' if ok else 'EVIDENCE PROBLEM'); sys.exit(0 if ok else 1)
PY
exit $rc

#!/bin/bash
# usage: run_finding.sh <demo file under /verif/findings> <repo package dir> <TestName>
# Runs a demonstration test against /repo's current tree through go test -overlay (nothing is written to /repo).
export GOFLAGS=-mod=mod GOPROXY=off GOSUMDB=off GOTOOLCHAIN=local
demo=$(readlink -f "$1"); pkg=$2; name=$3
d=$(mktemp -d); trap 'rm -rf $d' EXIT
echo "{\"Replace\":{\"/repo/$pkg/$(basename $demo)\":\"$demo\"}}" > $d/ov.json
cd /repo && go test -overlay $d/ov.json -vet=off -count=1 -timeout 300s -run "^$name\$" -v ./$pkg
rc=$?
# the repository's test scaffolding removes tracked fixture files on teardown: put them back
git -C /repo ls-files -d -z | xargs -0 -r git -C /repo checkout -- 2>/dev/null
exit $rc

#!/usr/bin/env python3
"""Collects the deliverables of seeding sub-agents (/tmp/agents/<prop>/out/change<n>/{patch.diff,demo_test.go,notes.md})
into /verif/seeded_raw/<prop>/change<k> (k continues the numbering of /verif/seeded) and writes the job list for
tools/verify_seed.sh.  Second step (after the verification jobs): `collect_seeds.py store <round label>` moves every
confirmed change to /verif/seeded/<prop>-<k>/ with its meta.json."""
import os,re,glob,shutil,json,sys
PLAN='/tmp/seedplan_cur.json'
if len(sys.argv)>1 and sys.argv[1]=='store':
    label=sys.argv[2] if len(sys.argv)>2 else 'later round'
    plan={(p,n):(demo,files) for p,n,demo,files in json.load(open(PLAN))}
    for f in sorted(glob.glob('/tmp/seedverify/C*_*.json')):
        d=json.load(open(f)); pid,n=d['id'],d['change']
        ok=(d['applies']==1 and d['demo_clean_exit']==0 and d['demo_patched_exit']!=0 and d['build_exit']==0 and d['tests_exit']==0)
        print(pid,n,'applies',d['applies'],'clean',d['demo_clean_exit'],'patched',d['demo_patched_exit'],'build',d['build_exit'],'tests',d['tests_exit'],d['failed_tests'],'KEEP' if ok else 'NOT KEPT')
        if not ok: continue
        demo,files=plan[(pid,n)]
        src=f'/verif/seeded_raw/{pid}/change{n}'; dst=f'/verif/seeded/{pid}-{n}'
        os.makedirs(dst,exist_ok=True)
        for x in ['patch.diff','demo_test.go','notes.md']: shutil.copy(f'{src}/{x}',f'{dst}/{x}')
        notes=open(f'{src}/notes.md').read()
        m=re.search(r'(?i)needs?[^\n]*manifest[^\n]*\n+((?:[-*] [^\n]*\n?|[^\n#]+\n?){1,6})',notes)
        needs=(m.group(1).strip().replace('\n',' ')[:600] if m else 'see notes.md')
        meta={"seed":f"{pid}-{n}","property":pid,
          "origin":f"independent sub-agent ({label}) given only the property text and a scratch worktree of /repo without the contract files",
          "files_changed":files,"needs_to_manifest":needs,
          "demo":{"file":"demo_test.go","place_at":demo,"tests":d['tests']},
          "confirmed_by_me":{"how":"tools/verify_seed.sh in a scratch git worktree of /repo HEAD (removed afterwards)",
            "demo_without_patch_exit":d['demo_clean_exit'],"demo_with_patch_exit":d['demo_patched_exit'],"go_build_exit":d['build_exit'],
            "existing_tests_cmd":"go test -vet=off -count=1 "+d['pkgs'],"existing_tests_exit":d['tests_exit'],"existing_tests_failed":d['failed_tests'],"note":""}}
        json.dump(meta,open(f'{dst}/meta.json','w'),indent=1)
    sys.exit(0)
plan=[]
for d in sorted(glob.glob('/tmp/agents/C*/out/change*')):
    pid=d.split('/')[3]; n=int(d[-1])
    used={int(x.rsplit('-',1)[1]) for x in glob.glob(f'/verif/seeded/{pid}-*')}
    base=max(used|{0})
    if pid=='C15': base=max(base,4)
    newn=base+n
    dst=f'/verif/seeded_raw/{pid}/change{newn}'
    os.makedirs(os.path.dirname(dst),exist_ok=True)
    if os.path.exists(dst): shutil.rmtree(dst)
    shutil.copytree(d,dst)
    notes=open(dst+'/notes.md').read()
    m=re.findall(r'((?:api|masswallet|config|cmd)[\w/]*/zz_\w+_test\.go)',notes)
    demo=m[0] if m else None
    files=re.findall(r'^\+\+\+ b/(\S+)',open(dst+'/patch.diff').read(),re.M)
    plan.append((pid,newn,demo,files)); print(pid,newn,demo,files)
json.dump(plan,open(PLAN,'w'))
with open('/tmp/seedverify_jobs_cur.txt','w') as f:
    for pid,n,demo,files in plan:
        f.write(f"{pid} {n} {demo} ./masswallet/... ./cmd/masswalletcli/cmd\n")
print("jobs: /tmp/seedverify_jobs_cur.txt  (cat it | xargs -P 5 -L 1 bash /verif/tools/verify_seed.sh)")

#!/bin/bash
# usage: verify_seed.sh <id> <n> <demo path in repo> <pkgs to test...>
# Confirms in a scratch worktree of /repo HEAD: demo passes without the patch, fails with it; the change builds and
# the existing tests of the given packages still pass with it.  Writes /tmp/seedverify/<id>_<n>.json
id=$1; n=$2; demo=$3; shift 3
export GOFLAGS=-mod=mod GOPROXY=off GOSUMDB=off GOTOOLCHAIN=local
src=/verif/seeded_raw/$id/change$n
wt=/tmp/sv_${id}_$n
out=/tmp/seedverify; mkdir -p $out
log=$out/${id}_$n.log; : > $log
git -C /repo worktree remove --force $wt >/dev/null 2>&1
git -C /repo worktree add -q --detach $wt HEAD >>$log 2>&1 || { echo '{"error":"worktree"}' > $out/${id}_$n.json; exit 1; }
cd $wt
demofile=$(ls $src/demo_test.go 2>/dev/null || ls $src/demo*.go | head -1)
tests=$(grep -o 'func Test[A-Za-z0-9_]*' $demofile | sed 's/func //' | paste -sd'|')
pkg=./$(dirname $demo)
cp $demofile $wt/$demo
echo "== demo without patch" >>$log
go test -vet=off -count=1 -timeout 10m -run "^($tests)\$" $pkg >>$log 2>&1; r_clean=$?
applies=0
git apply --check $src/patch.diff >>$log 2>&1 && applies=1
r_demo=-1; r_build=-1; r_tests=-1
if [ $applies = 1 ]; then
  git apply $src/patch.diff
  echo "== build" >>$log
  go build ./... >>$log 2>&1; r_build=$?
  go vet ./... >/dev/null 2>&1
  echo "== demo with patch" >>$log
  go test -vet=off -count=1 -timeout 10m -run "^($tests)\$" $pkg >>$log 2>&1; r_demo=$?
  rm -f $wt/$demo
  echo "== existing tests with patch: $@" >>$log
  go test -vet=off -count=1 -timeout 25m "$@" > $out/${id}_$n.tests.log 2>&1; r_tests=$?
  grep -E "^(ok|FAIL|---)" $out/${id}_$n.tests.log >>$log
fi
fails=$(grep -E "^--- FAIL" $out/${id}_$n.tests.log 2>/dev/null | awk '{print $3}' | sort -u | paste -sd',')
echo "{\"id\":\"$id\",\"change\":$n,\"applies\":$applies,\"demo_clean_exit\":$r_clean,\"demo_patched_exit\":$r_demo,\"build_exit\":$r_build,\"tests_exit\":$r_tests,\"failed_tests\":\"$fails\",\"tests\":\"$tests\",\"pkgs\":\"$*\"}" > $out/${id}_$n.json
cd /; git -C /repo worktree remove --force $wt >/dev/null 2>&1

#!/usr/bin/env python3
"""Regenerates /verif/MANIFEST.json from the claim table below (kept here so the manifest stays consistent)."""
import json, subprocess

ENV = "GOFLAGS=-mod=mod GOPROXY=off GOSUMDB=off GOTOOLCHAIN=local"
props = [json.loads(l) for l in open('/verif/properties.jsonl')]
ids = [p['id'] for p in props]

# id -> (claim text, note)   -- only properties whose contract set currently discharges are listed
CLAIMS = json.load(open('/verif/tools/claims.json'))
NA = json.load(open('/verif/tools/not_applicable.json'))

hooks = subprocess.run(['git', '-C', '/repo', 'log', '--format=%H %s'], capture_output=True, text=True).stdout.splitlines()
hook_commits = [l.split()[0] for l in hooks if 'verif hooks' in l]

checks = []
for pid in ids:
    if pid not in CLAIMS:
        continue
    c = CLAIMS[pid]
    checks.append({
        "property_id": pid,
        "quick_cmd": f"./bin/govc check -property {pid} -tier quick",
        "thorough_cmd": f"./bin/govc check -property {pid} -tier thorough",
        "evidence_file": f"/verif/evidence/{pid}.json",
        "replay_cmd_template": "./bin/govc replay {path}",
        "engine": "govc",
        "level_claimed": {"category": "proof", "text": c["text"], "design_ref": c.get("design_ref", "DESIGN.md section 6")},
        "level_note": c["note"],
        "technique": "contract-based deductive verification: weakest-precondition style VCs generated from the typed Go AST of /repo against //@ contracts, discharged by z3/cvc5",
    })
na = []
for pid in ids:
    if pid in CLAIMS:
        continue
    na.append({"property_id": pid, "reason": NA.get(pid, "not yet claimed: contract set under construction (see DESIGN.md section 6)")})

m = {
    "version": 1,
    "setup_cmd": f"cd /verif && {ENV} go build -o bin/govc ./cmd/govc",
    "hooks": {
        "guard": "verif",
        "enable": "Go build tag `verif`: comment-only contract files <pkg>/zz_contracts_verif.go (and Go spec helpers zz_spec_verif.go) are visible only with -tags verif; govc loads /repo with that tag",
        "baseline_off_cmd": f"cd /repo && {ENV} go test -vet=off -count=1 -timeout 25m ./...",
        "source_commits": hook_commits,
        "add_only": True,
    },
    "engines": [{"name": "govc", "path": "cmd/govc", "serves_properties": sorted(CLAIMS.keys()),
                 "kind_free_text": "contract-based deductive verifier for Go written for this task: typed-AST symbolic execution with loop cutting at invariants and modular calls -> SMT-LIB -> z3 5.1 / z3 4.8 / cvc5 portfolio"}],
    "checks": checks,
    "notes": "Each check proves every obligation generated from the //@ contracts that serve the property on /repo's current working tree (exit 0), reports a failed obligation as VIOLATION (exit 1), and exits 2 (cannot decide) when a contract no longer binds or a function leaves the verifiable subset. Known findings: /verif/known_findings.txt.",
    "not_applicable": na,
}
json.dump(m, open('/verif/MANIFEST.json', 'w'), indent=1)
print("checks:", [c['property_id'] for c in checks])

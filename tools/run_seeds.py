#!/usr/bin/env python3
"""Applies every seeded change in turn to a scratch worktree of /repo's HEAD (never to /repo itself), runs the quick
check of its property there (govc check -repo <worktree>) and records in seeded/<seed>/meta.json whether a VIOLATION
was raised.  The worktree (/tmp/govc_seedwt_<pid>/repo) is removed at the end; all paths are relative to this script's root, so it also runs inside a snapshot of /verif (vp run).  Usage: run_seeds.py [seed-or-property ...]"""
import json,os,subprocess,sys,glob,re,shutil
ROOT=os.path.dirname(os.path.dirname(os.path.abspath(__file__)))   # /verif, or a snapshot of it (vp run)
WT='/tmp/govc_seedwt_%d/repo' % os.getpid()
def sh(*a,**k): return subprocess.run(list(a),capture_output=True,text=True,**k)
sh('git','-C','/repo','worktree','remove','--force',WT); shutil.rmtree(os.path.dirname(WT),ignore_errors=True); sh('git','-C','/repo','worktree','prune')
os.makedirs(os.path.dirname(WT),exist_ok=True)
r=sh('git','-C','/repo','worktree','add','--detach',WT,os.environ.get('SEED_REPO_REV','HEAD'))
if r.returncode!=0: print(r.stderr); sys.exit(3)
claimed=[c['property_id'] for c in json.load(open(ROOT+'/MANIFEST.json'))['checks']]
OTHERS='--others' in sys.argv
only=[a for a in sys.argv[1:] if not a.startswith('--')]
rows=[]
try:
    for d in sorted(glob.glob(ROOT+'/seeded/*/')):
        meta=json.load(open(d+'meta.json'))
        if only and meta['seed'] not in only and meta['property'] not in only: continue
        pid=meta['property']
        if pid not in claimed:
            meta['detected_by']={"status":"property not claimed"}; json.dump(meta,open(d+'meta.json','w'),indent=1); rows.append((meta['seed'],'not-claimed')); continue
        r=sh('git','-C',WT,'apply',d+'patch.diff')
        if r.returncode!=0:
            meta['detected_by']={"status":"patch does not apply to current /repo","stderr":r.stderr[:300]}; rows.append((meta['seed'],'no-apply'))
        else:
            try:
                out=sh(ROOT+'/bin/govc','check','-property',pid,'-no-evidence','-repo',WT,cwd=ROOT,env=dict(os.environ,VERIF_ROOT=ROOT)).stdout
            finally:
                sh('git','-C',WT,'checkout','--','.'); sh('git','-C',WT,'clean','-fdq')
            viol=[l.strip() for l in out.splitlines() if 'failed obligation' in l]
            cannot=[l.strip() for l in out.splitlines() if l.startswith('cannot decide')]
            status='VIOLATION' if viol else ('cannot-decide' if cannot else 'missed')
            meta['detected_by']={"status":status,"check":f"./bin/govc check -property {pid} -tier quick","failed_obligations":[re.sub(r'\s+\[.*$','',v.replace('failed obligation: ','')) for v in viol][:8],"cannot_decide":cannot[:3]}
            if status!='VIOLATION' and OTHERS:
                # a change that breaks this property may be reported by the check of another one (a user runs them all)
                sh('git','-C',WT,'apply',d+'patch.diff')
                hit=[]
                try:
                    for other in claimed:
                        if other==pid: continue
                        o2=sh(ROOT+'/bin/govc','check','-property',other,'-no-evidence','-repo',WT,cwd=ROOT,env=dict(os.environ,VERIF_ROOT=ROOT)).stdout
                        v2=[l.strip() for l in o2.splitlines() if 'failed obligation' in l]
                        if v2: hit.append({"property":other,"failed_obligations":[re.sub(r'\s+\[.*$','',v.replace('failed obligation: ','')) for v in v2][:4]})
                finally:
                    sh('git','-C',WT,'checkout','--','.'); sh('git','-C',WT,'clean','-fdq')
                meta['detected_by']['other_properties']=hit
                if hit: status+=' (reported by '+','.join(h['property'] for h in hit)+')'
            rows.append((meta['seed'],status))
        json.dump(meta,open(d+'meta.json','w'),indent=1)
        print(*rows[-1],flush=True)
finally:
    sh('git','-C','/repo','worktree','remove','--force',WT); shutil.rmtree(os.path.dirname(WT),ignore_errors=True); sh('git','-C','/repo','worktree','prune')

#!/usr/bin/env python3
"""Applies every seeded change to /repo in turn (git apply / git checkout), runs the quick check of its property and
records in seeded/<seed>/meta.json whether a VIOLATION was raised.  Refuses on a dirty /repo."""
import json,os,subprocess,sys,glob,re
if subprocess.run(['git','-C','/repo','status','--porcelain'],capture_output=True,text=True).stdout.strip():
    print("REFUSING: /repo has uncommitted changes"); sys.exit(3)
claimed=[c['property_id'] for c in json.load(open('/verif/MANIFEST.json'))['checks']]
only=sys.argv[1:]
rows=[]
for d in sorted(glob.glob('/verif/seeded/*/')):
    meta=json.load(open(d+'meta.json'))
    if only and meta['seed'] not in only and meta['property'] not in only: continue
    pid=meta['property']
    if pid not in claimed:
        meta['detected_by']={"status":"property not claimed yet"}; json.dump(meta,open(d+'meta.json','w'),indent=1); rows.append((meta['seed'],'not-claimed')); continue
    r=subprocess.run(['git','-C','/repo','apply',d+'patch.diff'],capture_output=True,text=True)
    if r.returncode!=0:
        meta['detected_by']={"status":"patch does not apply to current /repo","stderr":r.stderr[:300]}; rows.append((meta['seed'],'no-apply'))
    else:
        try:
            out=subprocess.run(['/verif/bin/govc','check','-property',pid,'-no-evidence'],capture_output=True,text=True,cwd='/verif').stdout
        finally:
            subprocess.run(['git','-C','/repo','checkout','--','.'])
        viol=[l.strip() for l in out.splitlines() if 'failed obligation' in l]
        cannot=[l.strip() for l in out.splitlines() if l.startswith('cannot decide')]
        status='VIOLATION' if viol else ('cannot-decide' if cannot else 'missed')
        meta['detected_by']={"status":status,"check":f"./bin/govc check -property {pid} -tier quick","failed_obligations":[re.sub(r'\s+\[.*$','',v.replace('failed obligation: ','')) for v in viol][:8],"cannot_decide":cannot[:3]}
        rows.append((meta['seed'],status))
    json.dump(meta,open(d+'meta.json','w'),indent=1)
for r in rows: print(*r)
